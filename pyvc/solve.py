"""Discharge obligations: z3 (Python API, one query per process slot) and cvc5 (binary)."""
from __future__ import annotations

import os
import subprocess
import tempfile
import time
from concurrent.futures import ProcessPoolExecutor

import z3

CVC5 = "/usr/bin/cvc5"


def to_smt2(pc, goal):
    s = z3.Solver()
    for p in pc:
        s.add(p)
    s.add(z3.Not(goal))
    return s.to_smt2()


def _run_z3(args):
    smt2, timeout_ms, want_model = args
    t0 = time.time()
    try:
        ctx = z3.Context()
        s = z3.Solver(ctx=ctx)
        s.set("timeout", timeout_ms)
        s.from_string(smt2)
        r = s.check()
        model = None
        reason = None
        if r == z3.sat and want_model:
            m = s.model()
            model = {}
            for d in m.decls():
                try:
                    model[d.name()] = str(m[d])[:2000]
                except Exception:
                    pass
        if r == z3.unknown:
            reason = s.reason_unknown()
        return (str(r), model, time.time() - t0, reason)
    except Exception as e:  # noqa: BLE001
        return ("error", None, time.time() - t0, repr(e))


def _run_cvc5(args):
    smt2, timeout_ms = args
    t0 = time.time()
    try:
        with tempfile.NamedTemporaryFile("w", suffix=".smt2", delete=False, dir="/var/tmp") as f:
            txt = smt2.replace("(check-sat)", "")
            f.write("(set-logic ALL)\n" + txt + "\n(check-sat)\n")
            path = f.name
        try:
            p = subprocess.run(
                [CVC5, "--strings-exp", f"--tlimit={timeout_ms}", path],
                capture_output=True,
                text=True,
                timeout=timeout_ms / 1000 + 5,
            )
            out = (p.stdout or "").strip().splitlines()
            r = out[0] if out else "error"
            if r not in ("sat", "unsat", "unknown"):
                return ("unsupported", None, time.time() - t0, (p.stdout + p.stderr)[:300])
            return (r, None, time.time() - t0, None)
        finally:
            os.unlink(path)
    except subprocess.TimeoutExpired:
        return ("unknown", None, time.time() - t0, "timeout")
    except Exception as e:  # noqa: BLE001
        return ("error", None, time.time() - t0, repr(e))


def discharge(obligations, timeout_s=10, jobs=None, both=False):
    """fills ob.result ('unsat' = discharged, 'sat', 'unknown', 'error'), ob.model, ob.time, ob.backend"""
    jobs = jobs or min(16, os.cpu_count() or 4)
    todo = []
    for ob in obligations:
        g = z3.simplify(ob.goal)
        if z3.is_true(g):
            ob.result, ob.backend, ob.time = "unsat", "syntactic", 0.0
            continue
        ob.smt2 = to_smt2(ob.pc, ob.goal)
        todo.append(ob)
    if not todo:
        return
    tm = int(timeout_s * 1000)
    with ProcessPoolExecutor(max_workers=jobs) as ex:
        res = list(ex.map(_run_z3, [(ob.smt2, tm, True) for ob in todo], chunksize=1))
        for ob, (r, model, t, reason) in zip(todo, res):
            ob.result, ob.model, ob.time, ob.backend = r, model, t, "z3"
            ob.note = (ob.note + f" [{reason}]") if reason else ob.note
        second = [ob for ob in todo if both or ob.result in ("unknown", "error")]
        if second:
            res2 = list(ex.map(_run_cvc5, [(ob.smt2, tm) for ob in second], chunksize=1))
            for ob, (r, _m, t, reason) in zip(second, res2):
                ob.cvc5 = (r, t)
                if ob.result in ("unknown", "error") and r in ("sat", "unsat"):
                    ob.result, ob.backend, ob.time = r, "cvc5", ob.time + t
                elif r in ("sat", "unsat") and ob.result in ("sat", "unsat") and r != ob.result:
                    ob.result = "disagree"
                    ob.note += f" [z3={ob.result} cvc5={r}]"
