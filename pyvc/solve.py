"""Discharge obligations with a z3 / cvc5 portfolio (one subprocess each, hard timeouts)."""
from __future__ import annotations

import os
import shutil
import subprocess
import tempfile
import time
from concurrent.futures import ThreadPoolExecutor

import z3

CVC5 = shutil.which("cvc5") or "/usr/bin/cvc5"
Z3 = shutil.which("z3-new") or shutil.which("z3") or "/usr/bin/z3"
SCRATCH = "/var/tmp"


def _has_quant(e):
    todo = [e]
    seen = 0
    while todo and seen < 20000:
        x = todo.pop()
        seen += 1
        if z3.is_quantifier(x):
            return True
        todo.extend(x.children())
    return False


def to_smt2(pc, goal, light=False):
    from .types import BACKGROUND

    if light:
        pc = [p for p in pc if not _has_quant(p)]

    s = z3.Solver()
    for a in BACKGROUND:
        s.add(a)
    for p in pc:
        s.add(p)
    s.add(z3.Not(goal))
    return s.to_smt2()


VARIANTS = {
    1: ["smt.relevancy=0"],
    2: ["smt.arith.solver=2"],
    3: ["smt.random_seed=7", "sat.random_seed=7"],
    4: ["smt.mbqi=false", "smt.random_seed=3"],
}


def _cmd(backend, path, timeout_s, seed=0):
    if backend == "z3":
        extra = VARIANTS.get(seed, [])
        return [Z3, f"-T:{int(timeout_s)}", "model_validate=false", *extra, path]
    return [CVC5, "--strings-exp", "--produce-models", f"--tlimit={int(timeout_s * 1000)}", path]


def _parse(out):
    lines = (out or "").strip().splitlines()
    head = lines[0].strip() if lines else ""
    if head in ("sat", "unsat", "unknown"):
        return head, "\n".join(lines[1:])[:6000]
    if head == "timeout":
        return "unknown", "timeout"
    return "error", (out or "")[:400]


def _solve_one(args):
    smt2, timeout_s, mode = args[:3]  # mode: 'first' (portfolio) | 'both'
    seeds = args[3] if len(args) > 3 else None
    t0 = time.time()
    fd, path = tempfile.mkstemp(suffix=".smt2", dir=SCRATCH)
    with os.fdopen(fd, "w") as f:
        f.write("(set-logic ALL)\n" + smt2.replace("(check-sat)", "(check-sat)\n(get-model)"))
    procs = {}
    results = {}
    try:
        for b in ("z3", "cvc5"):
            procs[b] = subprocess.Popen(_cmd(b, path, timeout_s), stdout=subprocess.PIPE, stderr=subprocess.STDOUT, text=True)
        for sd in seeds or ():
            procs[f"z3#{sd}"] = subprocess.Popen(_cmd("z3", path, timeout_s, sd), stdout=subprocess.PIPE, stderr=subprocess.STDOUT, text=True)
        deadline = t0 + timeout_s + 3
        pending = dict(procs)
        while pending and time.time() < deadline:
            for b, p in list(pending.items()):
                if p.poll() is not None:
                    out = p.stdout.read()
                    r, rest = _parse(out)
                    results[b] = (r, rest, time.time() - t0)
                    del pending[b]
                    if mode == "first" and r in ("sat", "unsat"):
                        pending_kill = list(pending.values())
                        for q in pending_kill:
                            q.kill()
                        pending = {}
                        break
            time.sleep(0.005)
        for b, p in pending.items():
            p.kill()
            results[b] = ("unknown", "timeout (killed)", time.time() - t0)
    finally:
        for p in procs.values():
            try:
                p.kill()
            except Exception:  # noqa: BLE001
                pass
            try:
                p.stdout.close()
            except Exception:  # noqa: BLE001
                pass
            p.wait()
        os.unlink(path)
    return results


def _conjuncts(g, limit=40):
    out = []
    todo = [g]
    while todo:
        x = todo.pop()
        if z3.is_and(x) and len(out) + len(todo) < limit:
            todo.extend(reversed(x.children()))
        else:
            out.append(x)
    return out


class _Part:
    __slots__ = ("ob", "goal", "pc", "smt2", "result", "model", "time", "backend", "note", "cvc5")

    def __init__(self, ob, goal):
        self.ob, self.goal, self.pc = ob, goal, ob.pc
        self.result = self.model = self.backend = self.cvc5 = None
        self.time = 0.0
        self.note = ""


def discharge(obligations, timeout_s=10, jobs=None, both=False):
    """fills ob.result ('unsat' = discharged, 'sat', 'unknown', 'error', 'disagree'), ob.model (text), ob.time, ob.backend.
    Conjunctive goals are split into one query per conjunct (an obligation is discharged iff all of them are)."""
    jobs = jobs or max(2, (os.cpu_count() or 4) // 2)
    parts_of = {}
    todo = []
    for ob in obligations:
        g = z3.simplify(ob.goal)
        if z3.is_true(g):
            ob.result, ob.backend, ob.time = "unsat", "syntactic", 0.0
            continue
        ps = [_Part(ob, c) for c in _conjuncts(ob.goal)]
        parts_of[id(ob)] = ps
        ob.smt2 = to_smt2(ob.pc, ob.goal)
        for p in ps:
            if z3.is_true(z3.simplify(p.goal)):
                p.result, p.backend = "unsat", "syntactic"
            else:
                p.smt2 = to_smt2(p.pc, p.goal)
                todo.append(p)
    _discharge_parts(todo, timeout_s, jobs, both)
    for ob in obligations:
        ps = parts_of.get(id(ob))
        if ps is None:
            continue
        ob.subqueries = len(ps)
        ob.time = sum(p.time for p in ps)
        bad = [p for p in ps if p.result != "unsat"]
        if not bad:
            ob.result = "unsat"
            bs = {p.backend for p in ps if p.backend != "syntactic"}
            ob.backend = "+".join(sorted(bs)) if bs else "syntactic"
            continue
        for kind in ("disagree", "sat", "error", "unknown"):
            hit = [p for p in bad if p.result == kind]
            if hit:
                p = hit[0]
                ob.result, ob.backend, ob.model = kind, p.backend, p.model
                ob.note += p.note + f" [failing conjunct: {str(p.goal)[:200]}]"
                ob.failed_goal = p.goal
                dbg = os.environ.get("PYVC_DUMP_FAILED")
                if dbg:  # developer aid: full text of every conjunct that did not discharge
                    os.makedirs(dbg, exist_ok=True)
                    with open(os.path.join(dbg, f"{ob.oid.replace('/', '_').replace(':', '_')}.txt"), "w") as fh:
                        for q in bad:
                            fh.write(f"--- {q.result}\n{q.goal}\n")
                    with open(os.path.join(dbg, f"{ob.oid.replace('/', '_').replace(':', '_')}.smt2"), "w") as fh:
                        fh.write(p.smt2)
                break


def _discharge_parts(todo, timeout_s, jobs, both):
    if not todo:
        return
    # stage 1: quantifier-free hypotheses only (sound: fewer hypotheses), short budget
    light = [ob for ob in todo if any(_has_quant(p) for p in ob.pc)]
    if light:
        with ThreadPoolExecutor(max_workers=jobs) as ex:
            res1 = list(ex.map(_solve_one, [(to_smt2(ob.pc, ob.goal, light=True), 2, "first") for ob in light]))
        for ob, rs in zip(light, res1):
            ok = [b for b, r in rs.items() if r[0] == "unsat"]
            if ok:
                ob.result, ob.backend, ob.time = "unsat", ok[0] + "/qf-hyps", min(rs[b][2] for b in ok)
        todo = [ob for ob in todo if ob.result != "unsat"]
        if not todo:
            return
    mode = "both" if both else "first"
    first_budget = timeout_s if both else min(4, timeout_s)
    with ThreadPoolExecutor(max_workers=jobs) as ex:
        res = list(ex.map(_solve_one, [(ob.smt2, first_budget, mode) for ob in todo]))
    # retry what is still unknown with a longer budget and a portfolio of random seeds, so that a verdict does not
    # depend on solver luck (an unknown is never reported before this second attempt)
    again = [i for i, rs in enumerate(res) if not any(r[0] in ("sat", "unsat") for r in rs.values())]
    if again:
        with ThreadPoolExecutor(max_workers=max(2, jobs // 3)) as ex:
            res2 = list(ex.map(_solve_one, [(todo[i].smt2, timeout_s * 2, "first", (1, 2, 3, 4)) for i in again]))
        for i, rs in zip(again, res2):
            res[i] = {k.split("#")[0] if r[0] in ("sat", "unsat") else k: r for k, r in rs.items()}
    for ob, rs in zip(todo, res):
        ob.cvc5 = rs.get("cvc5")
        definite = {b: r for b, r in rs.items() if r[0] in ("sat", "unsat")}
        answers = {r[0] for r in definite.values()}
        if len(answers) > 1:
            ob.result, ob.backend = "disagree", "z3+cvc5"
            ob.note += f" [z3={rs['z3'][0]} cvc5={rs['cvc5'][0]}]"
            ob.time = max(r[2] for r in rs.values())
            continue
        if definite:
            b = min(definite, key=lambda k: definite[k][2])
            ob.result, ob.backend, ob.time = definite[b][0], ("z3+cvc5" if len(definite) == 2 else b), definite[b][2]
            if ob.result == "sat":
                ob.model = definite[b][1]
            continue
        errs = [f"{b}: {r[1][:200]}" for b, r in rs.items() if r[0] == "error"]
        if len(errs) == len(rs) and errs:
            ob.result, ob.backend = "error", "none"
            ob.note += " [" + "; ".join(errs) + "]"
        else:
            ob.result, ob.backend = "unknown", "none"
            ob.note += " [" + "; ".join(f"{b}={r[0]}:{r[1][:60]}" for b, r in rs.items()) + "]"
        ob.time = max([r[2] for r in rs.values()] or [0])
