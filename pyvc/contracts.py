"""Contract registry.

A contract is attached to a qualified name — a function of /repo
('dvc_data.hashfile.hash:fobj_md5', 'dvc_data.hashfile.hash:HashStreamFile.read')
or an external one ('ext:BinaryIO.read', 'ext:hashlib._Hash.update').

Fields
  params    {name: Ty}                sorts of the parameters (self included)
  returns   Ty | None                 sort of the result
  requires  f(c) -> Bool              c.<param> entry values, c.h entry heap view
  ensures   f(c) -> Bool              c.result, c.h (post heap), c.h0 (entry heap)
  raises    {ExcName: (when, post)}   when(c) over the entry state: the exception MAY be raised only if it holds;
                                      post(c) holds in the state in which it is raised
  modifies  f(c) -> [items]           item = ('Cls.field', ref) one location | ('Cls.field', None) whole field | ('G.name',)
  invariants {ordinal: f(c)}          loop invariants, c.loc.<var> current locals, c.idx / c.visited / c.seq loop ghosts
  modular   bool                      True: callers use the contract; False: callers inline the body (contract only checked on the function itself)
  assumed   bool                      external / trusted: never verified, listed in trusted_base
  pure      bool                      no heap effects (modifies = [])
  props     [ids]                     properties this contract serves
  lemmas    {name: f(c)->Bool}        extra facts to prove at each normal return (stated over entry/post state)
"""
from __future__ import annotations


class Contract:
    def __init__(self, qualname, **kw):
        self.qualname = qualname
        self.params = kw.pop("params", {})
        self.returns = kw.pop("returns", None)
        self.requires = kw.pop("requires", None)
        self.ensures = kw.pop("ensures", None)
        self.raises = kw.pop("raises", {})
        self.modifies = kw.pop("modifies", None)
        self.invariants = kw.pop("invariants", {})
        self.modular = kw.pop("modular", True)
        self.assumed = kw.pop("assumed", False)
        self.props = kw.pop("props", [])
        self.lemmas = kw.pop("lemmas", {})
        self.fresh_result = kw.pop("fresh_result", False)
        self.doc = kw.pop("doc", "")
        self.verify = kw.pop("verify", not self.assumed)
        self.yields = kw.pop("yields", None)  # element type for generator functions
        self.locals = kw.pop("locals", {})  # declared sorts of locals that need help
        self.entry_assume = kw.pop("entry_assume", None)  # extra assumptions about ghost state at entry (listed as assumptions)
        self.assumes = kw.pop("assumes", [])  # what entry_assume states, in words: copied into the evidence of every run that uses it
        self.allow_exc = kw.pop("allow_exc", None)
        self.pure = kw.pop("pure", False)  # no heap/ghost effects: generic native replay applies
        self.replay = kw.pop("replay", None)
        self.crash = kw.pop("crash", None)
        self.native_check = kw.pop("native_check", None)
        self.no_merge = kw.pop("no_merge", False)
        self.hints = kw.pop("hints", {})  # {callee-qualname-suffix: f(c)}: proved right after that call returns, then assumed (proof hint)
        self.inline = kw.pop("inline", ())  # (harness) callees whose BODY is executed although they have a modular contract
        self.only_props = kw.pop("only_props", False)  # serve only the listed properties (not every property anchored in the file)
        self.bounded = kw.pop("bounded", None)  # (script, n_quick, n_thorough): bounded run-time stand-in, never counted as proved  # fork at every `if` instead of merging states (smaller queries, more paths)  # CPython twin of the postcondition: f(args: dict, result) -> bool  # crash condition: must hold after every state-mutating call in the body  # custom native replay driver
        if kw:
            raise TypeError(f"unknown contract fields {list(kw)}")


class Registry:
    def __init__(self):
        self.by_name: dict[str, Contract] = {}

    def add(self, qualname, **kw):
        c = Contract(qualname, **kw)
        self.by_name[qualname] = c
        return c

    def get(self, qualname):
        return self.by_name.get(qualname)

    def for_property(self, pid):
        """contracts that serve a property: those that list it, and every contract (or stand-in) on a function of a file the
        property is anchored in -- a change anywhere in an anchored file is looked at by the property's own check"""
        files = _anchors().get(pid, set())
        return [c for c in self.by_name.values()
                if pid in c.props or (not c.only_props and c.props and (c.verify or c.bounded) and _file_of(c.qualname) in files)]


_ANCH = None


def _anchors():
    global _ANCH
    if _ANCH is None:
        import json
        import os
        _ANCH = {}
        p = os.path.join(os.path.dirname(os.path.dirname(os.path.abspath(__file__))), "properties.jsonl")
        for line in open(p):
            if line.strip():
                d = json.loads(line)
                _ANCH[d["id"]] = set(d.get("anchors", {}).get("files", []))
    return _ANCH


def _file_of(qualname):
    import os
    if qualname.startswith("ext:") or ":" not in qualname:
        return None
    mod = qualname.split(":")[0]
    src = os.environ.get("PYVC_REPO_SRC", "/repo/src")
    f = mod.replace(".", "/") + ".py"
    if not os.path.exists(os.path.join(src, f)):
        f = mod.replace(".", "/") + "/__init__.py"
    return "src/" + f


REG = Registry()


def contract(qualname, **kw):
    return REG.add(qualname, **kw)


HARNESSES: list = []


def harness(module, name, src, **kw):
    """lemma over real functions: `src` is a function definition evaluated in `module`'s namespace"""
    q = f"{module}:<harness>{name}"
    HARNESSES.append((module, name, src))
    kw.setdefault("modular", False)
    return REG.add(q, **kw)
