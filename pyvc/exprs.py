"""Expression evaluation (mixin)."""
from __future__ import annotations

import ast

import z3

from .engine import BoundMethod, ClassVal, Closure, PairList, SDict
from .source import ClassDef, Extern, FuncDef, ModuleRef
from .state import PathEnd, RaiseEx
from .types import (
    SV,
    TBool,
    TBytes,
    TFn,
    TInt,
    TList,
    TMap,
    TOMap,
    TOpt,
    TReal,
    TRec,
    TRef,
    TSeq,
    TSet,
    TStr,
    TTuple,
    Ite,
    Unsupported,
    canon,
    lift,
    py_eq,
    seq_slice,
    type_of_concrete,
    unify,
)


class ExprMixin:
    def eval(self, e):
        m = getattr(self, "ev_" + type(e).__name__, None)
        if m is None:
            raise Unsupported(f"expression {type(e).__name__} at L{getattr(e, 'lineno', '?')}")
        return m(e)

    # ---------------- atoms ----------------
    def ev_Constant(self, e):
        if e.value is Ellipsis:
            raise Unsupported("Ellipsis")
        return e.value

    def ev_Name(self, e):
        v, ok = self.lookup_name(e.id)
        if ok:
            return v
        return self.global_name(e.id, e)

    def global_name(self, name, node=None):
        mod = self.module_stack[-1]
        r = self.repo.resolve(mod, name)
        if r is not None:
            return self.wrap_def(r)
        b = self.builtin(name)
        if b is not None:
            return b
        raise Unsupported(f"unknown name {name} at L{getattr(node, 'lineno', '?')}")

    def wrap_def(self, r):
        if isinstance(r, ClassDef):
            return ClassVal(r, self.class_type(r))
        if isinstance(r, (FuncDef, Extern, ModuleRef)):
            return r
        if isinstance(r, tuple) and r[0] == "const":
            _, expr, module = r
            self.module_stack.append(module)
            saved = self.frames
            self.frames = [{}]
            try:
                return self.eval(expr)
            finally:
                self.frames = saved
                self.module_stack.pop()
        if r is None:
            raise Unsupported("unresolved definition")
        return r

    def class_type(self, cdef: ClassDef):
        n = cdef.name
        if n in TRec.registry:
            return TRec.registry[n]
        if n in TRef.registry:
            return TRef.registry[n]
        return None

    def ev_Tuple(self, e):
        out = []
        for x in e.elts:
            if isinstance(x, ast.Starred):
                v = self.iterable_view(self.eval(x.value))
                if not isinstance(v, (tuple, list)):
                    # (*key, x) with symbolic key -> symbolic sequence
                    return self._seq_concat(e)
                out.extend(v)
            else:
                out.append(self.eval(x))
        return tuple(out)

    def _seq_concat(self, e):
        parts = []
        ety = None
        for x in e.elts:
            if isinstance(x, ast.Starred):
                v = self.eval(x.value)
                if isinstance(v, (tuple, list)):
                    parts.append(("c", list(v)))
                else:
                    if not isinstance(v.ty, TSeq):
                        raise Unsupported("starred " + str(v.ty))
                    ety = v.ty
                    parts.append(("s", v))
            else:
                parts.append(("c", [self.eval(x)]))
        if ety is None:
            raise Unsupported("starred")
        acc = None
        for k, v in parts:
            sv = v if k == "s" else lift(tuple(v), ety)
            acc = sv if acc is None else acc + sv
        return acc

    def ev_List(self, e):
        return list(self.ev_Tuple(e)) if not any(isinstance(x, ast.Starred) for x in e.elts) else list(self.ev_Tuple(e))

    def ev_Set(self, e):
        elems = [self.eval(x) for x in e.elts]
        first = elems[0] if isinstance(elems[0], SV) else lift(elems[0])
        s = TSet(first.ty).empty()
        for x in elems:
            s = s.add(x)
        return s

    def ev_Dict(self, e):
        d = SDict()
        for k, v in zip(e.keys, e.values):
            if k is None:
                src = self.eval(v)
                if isinstance(src, SDict):
                    d.items.update(src.items)
                    continue
                raise Unsupported("dict ** of symbolic map")
            kv = self.eval(k)
            if isinstance(kv, SV):
                # symbolic key(s): a fixed-length association list
                if d.items:
                    raise Unsupported("dict literal mixing constant and symbolic keys")
                pairs = [(kv, self.eval(v))]
                for k2, v2 in list(zip(e.keys, e.values))[1:]:
                    pairs.append((self.eval(k2), self.eval(v2)))
                if len(pairs) > 1:
                    raise Unsupported("dict literal with several symbolic keys")
                return PairList(pairs)
            d.items[kv] = (z3.BoolVal(True), self.eval(v))
        return d

    def ev_JoinedStr(self, e):
        acc = None
        for p in e.values:
            if isinstance(p, ast.Constant):
                v = p.value
            else:
                v = self.eval(p.value)
                v = self.to_str(v)
            acc = v if acc is None else self.binop("Add", acc, v, e)
        return acc if acc is not None else ""

    def to_str(self, v):
        if isinstance(v, str):
            return v
        if isinstance(v, SV) and v.ty == TStr:
            return v
        if isinstance(v, SV) and isinstance(v.ty, TOpt) and v.ty.elem == TStr:
            # str(None) would silently give 'None': require a value
            self.oblige("attr", v.ty.is_some(v), self.cur_node, "None formatted into a string")
            self.assume(v.ty.is_some(v))
            return v.ty.val(v)
        if isinstance(v, int) and not isinstance(v, bool):
            return str(v)
        if isinstance(v, SV) and v.ty == TInt:
            return SV(z3.IntToStr(v.t), TStr)  # exact for v >= 0
        raise Unsupported(f"str() of {v}")

    def ev_Lambda(self, e):
        return Closure(e, list(self.frames), self.module_stack[-1])

    def ev_NamedExpr(self, e):
        v = self.eval(e.value)
        self.assign(e.target, v)
        return v

    def ev_Starred(self, e):
        raise Unsupported("starred expression")

    def ev_Slice(self, e):
        # s[:-k] with k > 0 known on this path: end = max(0, len - k), encoded without the sign case split
        if e.lower is None and e.step is None and isinstance(e.upper, ast.UnaryOp) and isinstance(e.upper.op, ast.USub):
            k = self.eval(e.upper.operand)
            if isinstance(k, SV) and k.ty == TInt and not self.oracle(lambda: self.feasible((k <= 0).t)):
                return slice(None, ("from_end", k), None)
            return slice(None, -k if not isinstance(k, SV) else -k, None)
        return slice(
            self.eval(e.lower) if e.lower else None,
            self.eval(e.upper) if e.upper else None,
            self.eval(e.step) if e.step else None,
        )

    # ---------------- operators ----------------
    def ev_BoolOp(self, e):
        is_and = isinstance(e.op, ast.And)
        cur = self.eval(e.values[0])
        for nxt in e.values[1:]:
            t = self.truth(cur)
            if isinstance(t, bool):
                if t == is_and:
                    cur = self.eval(nxt)
                continue_ = True
                if t != is_and:
                    return cur
                continue
            # symbolic: try to evaluate the right operand without forking when pure
            if self._is_pure_expr(nxt):
                snap_pc = len(self.st.pc)
                self.st.pc.append(t.t if is_and else z3.Not(t.t))
                try:
                    rhs = self.eval(nxt)
                finally:
                    del self.st.pc[snap_pc:]
                try:
                    cur = self.merge_values(t.t, rhs, cur) if is_and else self.merge_values(t.t, cur, rhs)
                    continue
                except Exception:
                    pass
            if self.branch(t) == is_and:
                cur = self.eval(nxt)
            else:
                return cur
        return cur

    def _is_pure_expr(self, e):
        for n in ast.walk(e):
            if isinstance(n, (ast.Call, ast.NamedExpr, ast.Yield, ast.Await, ast.Subscript)):
                if isinstance(n, ast.Call) and isinstance(n.func, ast.Name) and n.func.id in ("len", "bool", "isinstance"):
                    continue
                return False
        return True

    def ev_UnaryOp(self, e):
        v = self.eval(e.operand)
        if isinstance(e.op, ast.Not):
            t = self.truth(v)
            return (not t) if isinstance(t, bool) else ~t
        if isinstance(e.op, ast.USub):
            return -v
        raise Unsupported("unary " + type(e.op).__name__)

    def ev_BinOp(self, e):
        return self.binop(type(e.op).__name__, self.eval(e.left), self.eval(e.right), e)

    def binop(self, op, a, b, node, inplace=False):
        if type(a).__name__ == "_EmptySet" and isinstance(b, SV) and isinstance(b.ty, TSet):
            a = b.ty.empty()
        if type(b).__name__ == "_EmptySet" and isinstance(a, SV) and isinstance(a.ty, TSet):
            b = a.ty.empty()
        conc = not isinstance(a, SV) and not isinstance(b, SV)
        if conc and not isinstance(a, (tuple, list, SDict)) and not isinstance(b, (tuple, list, SDict)):
            import operator

            f = {"Add": operator.add, "Sub": operator.sub, "Mult": operator.mul, "FloorDiv": operator.floordiv, "Mod": operator.mod, "Pow": operator.pow, "BitOr": operator.or_, "BitAnd": operator.and_, "Div": operator.truediv}[op]
            return f(a, b)
        if op == "Add":
            def unopt(x):
                if isinstance(x, SV) and isinstance(x.ty, TOpt) and (isinstance(x.ty.elem, TSeq) or x.ty.elem == TStr):
                    self.oblige("attr", x.ty.is_some(x), node, "None used as an operand of +")
                    self.assume(x.ty.is_some(x))
                    return x.ty.val(x)
                return x

            a, b = unopt(a), unopt(b)
            if isinstance(a, SV) and isinstance(b, SV) and isinstance(a.ty, TList) and isinstance(b.ty, TList):
                return self.list_concat(a, b)
            if isinstance(a, (tuple, list)) and isinstance(b, (tuple, list)):
                return type(a)(list(a) + list(b))
            if isinstance(a, (tuple, list)) and isinstance(b, SV):
                return lift(tuple(a), b.ty) + b
            if isinstance(b, (tuple, list)) and isinstance(a, SV):
                return a + lift(tuple(b), a.ty)
            return a + b if isinstance(a, SV) else b.__radd__(a)
        if op == "Sub":
            if isinstance(a, SV) and isinstance(a.ty, TSet):
                return a - self.as_set(b, a.ty)
            return a - b if isinstance(a, SV) else b.__rsub__(a)
        if op == "Mult":
            return a * b if isinstance(a, SV) else b * a
        if op == "BitOr":
            if isinstance(a, SV) and isinstance(a.ty, TSet):
                return a.union(self.as_set(b, a.ty))
            if isinstance(b, SV) and isinstance(b.ty, TSet):
                return self.as_set(a, b.ty).union(b)
        if op == "BitAnd":
            if isinstance(a, SV) and isinstance(a.ty, TSet):
                return a.inter(self.as_set(b, a.ty))
        if op in ("BitAnd", "BitOr") and all((isinstance(x, SV) and x.ty == TInt) or (isinstance(x, int) and not isinstance(x, bool)) for x in (a, b)):
            # bit operations on mathematical integers: an uninterpreted function with the facts that hold for every
            # pair of non-negative operands (recorded in extraction_drops: no bit-level reasoning)
            from .specfn import ufn

            f = ufn("int_bitand" if op == "BitAnd" else "int_bitor", z3.IntSort(), z3.IntSort(), z3.IntSort())
            ai, bi = lift(a, TInt), lift(b, TInt)
            r = SV(f(ai.t, bi.t), TInt)
            if op == "BitAnd":
                self.st.pc.append(z3.Implies(z3.And(ai.t >= 0, bi.t >= 0), z3.And(r.t >= 0, r.t <= ai.t, r.t <= bi.t)))
            else:
                self.st.pc.append(z3.Implies(z3.And(ai.t >= 0, bi.t >= 0), z3.And(r.t >= ai.t, r.t >= bi.t, r.t <= ai.t + bi.t)))
            self.res.drops.add("bit operations on integers are uninterpreted (bounds only)")
            return r
        if op == "Div":
            ar, br = lift(a, TReal), lift(b, TReal)
            self.oblige("divzero", ~(br == 0), node)
            return SV(ar.t / br.t, TReal)
        if op == "FloorDiv":
            ai, bi = lift(a, TInt), lift(b, TInt)
            self.oblige("divzero", ~(bi == 0), node)
            if isinstance(b, int) and b > 0:
                return SV(ai.t / bi.t, TInt)
            # symbolic divisor: floor(a / b) = a div b for b > 0 and (-a) div (-b) for b < 0 (SMT-LIB div floors for positive divisors)
            return SV(z3.If(bi.t > 0, ai.t / bi.t, (-ai.t) / (-bi.t)), TInt)
        if op == "Mod":
            if isinstance(b, int) and b > 0 and isinstance(a, SV) and a.ty == TInt:
                return SV(a.t % b, TInt)
        if op == "Pow" and isinstance(a, int) and isinstance(b, int):
            return a**b
        raise Unsupported(f"binop {op} on {a!r}, {b!r}")

    def as_set(self, v, ty):
        if isinstance(v, SV):
            if v.ty == ty:
                return v
            if isinstance(v.ty, TMap) and TSet(v.ty.key) == ty:
                return v.ty.dom(v)
            raise Unsupported(f"set operand {v.ty} vs {ty}")
        return lift(v, ty)

    def ev_IfExp(self, e):
        t = self.truth(self.eval(e.test))
        if isinstance(t, bool):
            return self.eval(e.body if t else e.orelse)
        if self._is_pure_expr(e.body) and self._is_pure_expr(e.orelse):
            n = len(self.st.pc)
            self.st.pc.append(t.t)
            try:
                a = self.eval(e.body)
            finally:
                del self.st.pc[n:]
            self.st.pc.append(z3.Not(t.t))
            try:
                b = self.eval(e.orelse)
            finally:
                del self.st.pc[n:]
            try:
                return self.merge_values(t.t, a, b)
            except Exception:
                pass
        if self.branch(t):
            return self.eval(e.body)
        return self.eval(e.orelse)

    def ev_Compare(self, e):
        left = self.eval(e.left)
        result = None
        for op, rn in zip(e.ops, e.comparators):
            right = self.eval(rn)
            r = self.compare(type(op).__name__, left, right, e)
            if result is None:
                result = r
            else:
                tr = self.truth(result)
                t2 = self.truth(r)
                if isinstance(tr, bool):
                    result = t2 if tr else False
                elif isinstance(t2, bool):
                    result = tr if t2 else False
                else:
                    result = tr & t2
            left = right
        return result

    def compare(self, op, a, b, node):
        if op in ("Is", "IsNot"):
            r = self.is_op(a, b)
            return r if op == "Is" else (not r if isinstance(r, bool) else ~r)
        if op in ("Eq", "NotEq"):
            r = self.eq(a, b)
            if op == "NotEq":
                return (not r) if isinstance(r, bool) else ~r
            return r
        if op in ("In", "NotIn"):
            r = self.contains(b, a)
            if op == "NotIn":
                return (not r) if isinstance(r, bool) else ~r
            return r
        if not isinstance(a, SV) and not isinstance(b, SV):
            import operator

            return {"Lt": operator.lt, "LtE": operator.le, "Gt": operator.gt, "GtE": operator.ge}[op](a, b)
        def unopt(x):
            if isinstance(x, SV) and isinstance(x.ty, TOpt):
                self.oblige("attr", x.ty.is_some(x), node, "ordering comparison with None")
                self.assume(x.ty.is_some(x))
                return x.ty.val(x)
            return x

        a, b = unopt(a), unopt(b)
        if not isinstance(a, SV) and not isinstance(b, SV):
            import operator

            return {"Lt": operator.lt, "LtE": operator.le, "Gt": operator.gt, "GtE": operator.ge}[op](a, b)
        a2 = a if isinstance(a, SV) else lift(a, b.ty if b.ty in (TInt, TReal) else None)
        if op == "Lt":
            return a2 < b
        if op == "LtE":
            return a2 <= b
        if op == "Gt":
            return a2 > b
        if op == "GtE":
            return a2 >= b
        raise Unsupported("compare " + op)

    def is_op(self, a, b):
        if b is None or a is None:
            x = a if b is None else b
            if x is None:
                return True
            if isinstance(x, SV):
                if isinstance(x.ty, TOpt):
                    return x.ty.is_none(x)
                return False
            return False
        if isinstance(a, bool) or isinstance(b, bool):
            return self.eq(a, b)
        if isinstance(a, (ClassVal, FuncDef)) or isinstance(b, (ClassVal, FuncDef)):
            return a is b or (isinstance(a, ClassVal) and isinstance(b, ClassVal) and a.cdef is b.cdef)
        if isinstance(a, SV) and isinstance(b, SV) and isinstance(a.ty, TRef) and isinstance(b.ty, TRef):
            return SV(a.t == b.t, TBool)
        raise Unsupported(f"'is' on {a!r}, {b!r}")

    def eq(self, a, b):
        if isinstance(a, (tuple, list)) and isinstance(b, (tuple, list)):
            if len(a) != len(b):
                return False
            acc = True
            for x, y in zip(a, b):
                r = self.eq(x, y)
                if isinstance(r, bool):
                    if not r:
                        return False
                else:
                    acc = r if acc is True else (acc & r)
            return acc
        if isinstance(a, (tuple, list)) and isinstance(b, SV):
            a = self.lift_like(a, b.ty)
        if isinstance(b, (tuple, list)) and isinstance(a, SV):
            b = self.lift_like(b, a.ty)
        if isinstance(a, PairList) or isinstance(b, PairList):
            if isinstance(a, SDict) and not a.items:
                return len(b.pairs) == 0
            if isinstance(b, SDict) and not b.items:
                return len(a.pairs) == 0
            if isinstance(a, PairList) and isinstance(b, PairList) and len(a.pairs) == len(b.pairs) == 1:
                return lift(self.eq(a.pairs[0][0], b.pairs[0][0]), TBool) & lift(self.eq(a.pairs[0][1], b.pairs[0][1]), TBool)
            if isinstance(a, PairList) and isinstance(b, PairList):
                return len(a.pairs) == len(b.pairs) == 0
            return False
        if isinstance(a, SDict) or isinstance(b, SDict):
            return self.sdict_eq(a, b)
        if isinstance(a, (ClassVal, Closure, FuncDef)) or isinstance(b, (ClassVal, Closure, FuncDef)):
            return a is b
        if not isinstance(a, SV) and not isinstance(b, SV):
            return a == b
        # user-defined __eq__ is not used by the record classes under contract (attrs-generated)
        r = py_eq(a, b)
        s = z3.simplify(r.t)
        if z3.is_true(s):
            return True
        if z3.is_false(s):
            return False
        return r

    def lift_like(self, tup, ty):
        if isinstance(ty, TOpt):
            return lift(self.lift_like(tup, ty.elem), ty)
        if isinstance(ty, (TSeq, TList)):
            return lift(tuple(tup), ty)
        if isinstance(ty, TTuple):
            return ty.mk(*tup)
        raise Unsupported(f"compare tuple with {ty}")

    def sdict_eq(self, a, b):
        if a is None or b is None:
            return False
        if isinstance(a, SDict) and isinstance(b, SDict):
            acc = lift(True)
            for k in set(a.items) | set(b.items):
                pa, va = a.items.get(k, (z3.BoolVal(False), None))
                pb, vb = b.items.get(k, (z3.BoolVal(False), None))
                if va is None or vb is None:
                    acc = acc & SV(pa == pb, TBool)
                    continue
                e = self.eq(va, vb)
                e = lift(e, TBool)
                acc = acc & SV(pa == pb, TBool) & SV(z3.Implies(pa, e.t), TBool)
            return acc
        raise Unsupported("dict == non-dict")

    def contains(self, container, x):
        if isinstance(container, SDict):
            if isinstance(x, SV):
                acc = lift(False)
                for k, (p, _) in container.items.items():
                    if isinstance(k, str) and x.ty == TStr:
                        acc = acc | (SV(p, TBool) & (x == k))
                return acc
            p = container.items.get(x)
            if p is None:
                return False
            s = z3.simplify(p[0])
            return True if z3.is_true(s) else (False if z3.is_false(s) else SV(p[0], TBool))
        if isinstance(container, PairList):
            container = [k for k, _ in container.pairs]
        if isinstance(container, (tuple, list)):
            acc = False
            for y in container:
                r = self.eq(x, y)
                if r is True:
                    return True
                if r is not False:
                    acc = r if acc is False else (acc | r)
            return acc
        if isinstance(container, SV) and isinstance(container.ty, TOMap):
            return self.omap_dom(container).contains(self._elem(x, container.ty.key))
        if isinstance(container, SV) and isinstance(container.ty, TList):
            from . import specfn as _sf

            xe = self._elem(x, container.ty.elem)
            mem = _sf.list_elems(container).contains(xe)
            # definition of the ghost element set, instantiated at x (theory-valid)
            i = z3.Int(f"i!mem{self.fresh_id()}")
            self.st.pc.append(mem.t == z3.Exists([i], z3.And(i >= 0, i < container.length().t, container[SV(i, TInt)].t == xe.t)))
            return mem
        if isinstance(container, (str, bytes)) and not isinstance(x, SV):
            return x in container
        if isinstance(container, (str, bytes)):
            container = lift(container)
        if isinstance(container, SV) and isinstance(container.ty, TRec) and getattr(container.ty, "dictlike", False) and isinstance(x, str):
            if x not in container.ty.fields:
                self.res.drops.add(f"key {x!r} of {container.ty.name} is not modelled: treated as absent")
                return False
            v = container.ty.get(container, x)
            return v.ty.is_some(v)
        if isinstance(container, SV):
            if isinstance(container.ty, TOpt):
                self.oblige("attr", container.ty.is_some(container), self.cur_node, "'in' applied to None")
                self.assume(container.ty.is_some(container))
                return self.contains(container.ty.val(container), x)
            return container.contains(x)
        raise Unsupported(f"'in' on {container!r}")

    # ---------------- truthiness ----------------
    def truth(self, v):
        """Python truth value: Python bool or SV Bool"""
        if v is None:
            return False
        if isinstance(v, (bool, int, str, bytes, float, tuple, list)):
            return bool(v)
        if isinstance(v, PairList):
            return len(v.pairs) > 0
        if isinstance(v, SDict):
            if not v.items:
                return False
            ps = [p for p, _ in v.items.values()]
            s = z3.simplify(z3.Or(*ps))
            return True if z3.is_true(s) else (False if z3.is_false(s) else SV(s, TBool))
        if isinstance(v, (Closure, ClassVal, FuncDef, BoundMethod, Extern, RaiseEx)):
            return True
        if isinstance(v, SV):
            ty = v.ty
            if ty == TBool:
                s = z3.simplify(v.t)
                return True if z3.is_true(s) else (False if z3.is_false(s) else v)
            if ty == TInt or ty == TReal:
                return ~(v == 0)
            if ty == TStr or isinstance(ty, (TSeq, TList)):
                return v.length() > 0
            if isinstance(ty, (TSet, TMap)):
                return ~v.is_empty()
            if isinstance(ty, TOpt):
                inner = self.truth(ty.val(v))
                some = ty.is_some(v)
                if isinstance(inner, bool):
                    return some if inner else False
                return some & inner
            if isinstance(ty, TRec) and getattr(ty, "dictlike", False):
                return True  # dicts modelled this way (stat results, decoded rows) are never empty
            if isinstance(ty, (TRec, TRef)):
                m = self.find_method_for_type(ty, "__bool__")
                if m is None:
                    # __bool__ inherited from an external base takes precedence over a __len__ defined in the repository;
                    # whether the external base defines it is declared by the presence of an (assumed) contract for it
                    ext = self._extern_dunder(ty, "__bool__")
                    if ext is not None:
                        return self.truth(self.call_extern(ext, [v], {}, None, None))
                    m = self.find_method_for_type(ty, "__len__")
                if m is None:
                    return True
                r = self.call_function(m[0], [v], {}, None, cls=m[1])
                return self.truth(r)
            if isinstance(ty, (TTuple,)):
                return len(ty.elems) > 0
            if isinstance(ty, TFn):
                return True
        raise Unsupported(f"truth value of {v!r}")

    def list_concat(self, a, b):
        """a + b for two symbolic lists: a fresh list characterised pointwise (and through its element set)"""
        from . import specfn

        r = a.ty.fresh("lcat")
        la, lb = a.length().t, b.length().t
        i = z3.Int(f"i!cat{self.fresh_id()}")
        self.st.pc.append(r.length().t == la + lb)
        self.st.pc.append(z3.ForAll([i], z3.Implies(z3.And(i >= 0, i < la), r[SV(i, TInt)].t == a[SV(i, TInt)].t), patterns=[r[SV(i, TInt)].t]))
        self.st.pc.append(z3.ForAll([i], z3.Implies(z3.And(i >= la, i < la + lb), r[SV(i, TInt)].t == b[SV(i - la, TInt)].t), patterns=[r[SV(i, TInt)].t]))
        self.st.pc.append(specfn.list_elems(r).t == z3.SetUnion(specfn.list_elems(a).t, specfn.list_elems(b).t))
        return r

    def _extern_dunder(self, ty, name):
        from .source import ClassDef, Extern

        qn = getattr(ty, "qualname", None)
        cdef = self.repo.lookup(qn) if qn else None
        if not isinstance(cdef, ClassDef):
            return None
        m = self.repo.find_method(cdef, name)
        if isinstance(m, Extern) and self.reg.get("ext:" + m.dotted) is not None:
            return "ext:" + m.dotted
        return None

    # ---------------- attribute / subscript ----------------
    def ev_Attribute(self, e):
        obj = self.eval(e.value)
        return self.get_attr(obj, e.attr, e, obj_expr=e.value)

    def ev_Subscript(self, e):
        obj = self.eval(e.value)
        idx = self.eval(e.slice)
        return self.get_item(obj, idx, e)

    def get_item(self, obj, idx, node):
        if isinstance(obj, SDict):
            if isinstance(idx, SV):
                raise Unsupported("symbolic key into a constant-key dict")
            if idx not in obj.items:
                raise RaiseEx("KeyError", None, node)
            p, v = obj.items[idx]
            s = z3.simplify(p)
            if z3.is_true(s):
                return v
            if self.branch(SV(s, TBool)):
                return v
            raise RaiseEx("KeyError", None, node)
        if isinstance(obj, (tuple, list, str, bytes)) and not isinstance(idx, SV) and not (isinstance(idx, slice) and any(isinstance(x, SV) for x in (idx.start, idx.stop))):
            try:
                return obj[idx]
            except IndexError:
                raise RaiseEx("IndexError", None, node) from None
        if isinstance(obj, (str, bytes, tuple)):
            obj = lift(obj)
        if isinstance(obj, SV):
            ty = obj.ty
            if isinstance(ty, TOpt):
                self.oblige("attr", ty.is_some(obj), node, "subscript of None")
                self.assume(ty.is_some(obj))
                return self.get_item(ty.val(obj), idx, node)
            if isinstance(ty, TOMap):
                return self.omap_get(obj, idx, node)
            if isinstance(ty, TTuple) and isinstance(idx, slice):
                n = len(ty.elems)
                return tuple(ty.get(obj, i) for i in range(n)[idx])
            if isinstance(ty, TMap):
                k = lift(idx, ty.key) if not isinstance(idx, (tuple, list)) else self.lift_like(idx, ty.key)
                if not self.branch(obj.contains(k)):
                    raise RaiseEx("KeyError", None, node)
                return obj[canon(k)]
            if isinstance(ty, TSeq) or ty == TStr:
                if isinstance(idx, slice):
                    if idx.step is not None:
                        raise Unsupported("slice step")
                    return seq_slice(obj, idx.start, idx.stop)
                i = lift(idx, TInt)
                n = obj.length()
                if isinstance(idx, int) and idx < 0:
                    ok = n >= -idx
                    pos = n + idx
                else:
                    ok = (i >= 0) & (i < n)
                    pos = i
                if not self.branch(ok):
                    raise RaiseEx("IndexError", None, node)
                return obj[pos]
            if isinstance(ty, TTuple):
                if isinstance(idx, int):
                    return ty.get(obj, idx if idx >= 0 else len(ty.elems) + idx)
            if isinstance(ty, TList) and not isinstance(idx, slice):
                i = lift(idx, TInt)
                n = obj.length()
                if isinstance(idx, int) and idx < 0:
                    ok, pos = n >= -idx, n + idx
                else:
                    ok, pos = (i >= 0) & (i < n), i
                if not self.branch(ok):
                    raise RaiseEx("IndexError", None, node)
                return obj[pos]
            if isinstance(ty, TRec) and getattr(ty, "dictlike", False) and isinstance(idx, str):
                if idx not in ty.fields:
                    raise Unsupported(f"key {idx!r} of dict-like {ty.name} is not modelled")
                v = ty.get(obj, idx)
                if not self.branch(v.ty.is_some(v)):
                    raise RaiseEx("KeyError", None, node)
                return v.ty.val(v)
            if isinstance(ty, (TRec, TRef)):
                m = self.find_method_for_type(ty, "__getitem__")
                if m:
                    return self.call_function(m[0], [obj, idx], {}, node, cls=m[1])
                if isinstance(ty, TRef):
                    return self.call_extern(f"ext:{ty.cls}.__getitem__", [obj, idx], {}, node, None)
        if isinstance(obj, PairList) and obj.pairs:
            # d[k] on a dict literal with symbolic keys: the value of the first pair whose key equals k; KeyError if none does
            hit = False
            for kk, _ in obj.pairs:
                r = self.eq(idx, kk)
                hit = r if hit is False else (hit if r is False else (True if (hit is True or r is True) else (hit | r)))
            if hit is False or (hit is not True and not self.branch(hit)):
                raise RaiseEx("KeyError", None, node)
            acc = obj.pairs[-1][1]
            for kk, vv in reversed(obj.pairs[:-1]):
                r = self.eq(idx, kk)
                if r is True:
                    acc = vv
                elif r is not False:
                    acc = self.merge_values(r.t, vv, acc)
            return acc
        raise Unsupported(f"subscript of {obj!r}")

    # ---------------- comprehensions ----------------
    def ev_ListComp(self, e):
        return self.comprehension(e, "list")

    def ev_GeneratorExp(self, e):
        return self.comprehension(e, "gen")

    def ev_SetComp(self, e):
        return self.comprehension(e, "set")

    def ev_DictComp(self, e):
        return self.comprehension(e, "dict")

    def comprehension(self, e, kind):
        if len(e.generators) != 1:
            raise Unsupported("nested comprehension")
        g = e.generators[0]
        it = self.iterable_view(self.eval(g.iter))
        vw = self.as_view(it) if not isinstance(it, (tuple, list)) else None
        if vw is not None and (vw.what != "seq" or kind in ("dict", "list")):
            return self.view_comprehension(e, kind, g, vw)
        if isinstance(it, (tuple, list)):
            out = []
            self.frames.append({})
            try:
                for x in it:
                    self.assign(g.target, x)
                    ok = True
                    cond = None
                    npc = len(self.st.pc)
                    for c in g.ifs:
                        t = self.truth(self.eval(c))
                        if isinstance(t, bool):
                            if not t:
                                ok = False
                                break
                            continue
                        if kind == "dict":
                            # conditional entry of a constant-key dict: no fork, the condition becomes its presence
                            cond = t.t if cond is None else z3.And(cond, t.t)
                            self.st.pc.append(t.t)
                            continue
                        if not self.branch(t):
                            ok = False
                            break
                    try:
                        if ok:
                            if kind == "dict":
                                out.append((self.eval(e.key), self.eval(e.value), cond))
                            else:
                                out.append(self.eval(e.elt))
                    finally:
                        if cond is not None:
                            del self.st.pc[npc:]
            finally:
                self.frames.pop()
            if kind == "dict":
                d = SDict()
                for k, v, cond in out:
                    if isinstance(k, SV):
                        raise Unsupported("dict comprehension with symbolic keys over a concrete iterable")
                    d.items[k] = (z3.BoolVal(True) if cond is None else cond, v)
                return d
            if kind == "set":
                if not out:
                    raise Unsupported("empty set comprehension of unknown type")
                first = out[0] if isinstance(out[0], SV) else lift(out[0])
                s = TSet(first.ty).empty()
                for x in out:
                    s = s.add(x)
                return s
            return out
        return self.symbolic_comprehension(e, kind, g, it)

    # ---------------- assignment ----------------
    def assign(self, target, v):
        if isinstance(target, ast.Name):
            decl = self.declared_local_type(target.id) if self.fn_stack else None
            if decl is not None and not (isinstance(v, SV) and v.ty == decl):
                v = self.coerce(v, decl)
            self.set_name(target.id, v)
        elif isinstance(target, (ast.Tuple, ast.List)):
            vals = self.unpack(v, len(target.elts), target)
            for t, x in zip(target.elts, vals):
                if isinstance(t, ast.Starred):
                    raise Unsupported("starred assignment target")
                self.assign(t, x)
        elif isinstance(target, ast.Attribute):
            obj = self.eval(target.value)
            self.set_attr(obj, target.attr, v, target)
        elif isinstance(target, ast.Subscript):
            obj = self.eval(target.value)
            idx = self.eval(target.slice)
            new = self.store_item(obj, idx, v, target)
            if new is not None:
                self.assign(target.value, new)
        else:
            raise Unsupported("assignment target " + type(target).__name__)

    def unpack(self, v, n, node):
        if isinstance(v, (tuple, list)):
            if len(v) != n:
                self.oblige("unpack", False, node, f"cannot unpack {len(v)} values into {n} names")
                raise RaiseEx("ValueError", None, node)
            return list(v)
        if isinstance(v, SV) and isinstance(v.ty, TTuple):
            if len(v.ty.elems) != n:
                self.oblige("unpack", False, node, f"cannot unpack {len(v.ty.elems)}-tuple into {n} names")
                raise RaiseEx("ValueError", None, node)
            return [v.ty.get(v, i) for i in range(n)]
        if isinstance(v, SV) and isinstance(v.ty, TRec) and getattr(v.ty, "tuple_like", False):
            if len(v.ty.fields) != n:
                self.oblige("unpack", False, node, f"cannot unpack a {len(v.ty.fields)}-field named tuple into {n} names")
                raise RaiseEx("ValueError", None, node)
            return [v.ty.get(v, f) for f in v.ty.fields]
        if isinstance(v, SV) and isinstance(v.ty, TSeq):
            ok = v.length() == n
            self.oblige("unpack", ok, node)
            self.assume(ok)
            return [v[i] for i in range(n)]
        raise Unsupported(f"unpack of {v!r}")

    def store_item(self, obj, idx, v, node):
        """returns the updated container value (value semantics), or None if done in place (heap)"""
        if isinstance(obj, SDict):
            if isinstance(idx, SV):
                if obj.items:
                    raise Unsupported("symbolic key stored into a constant-key dict")
                vv = v if isinstance(v, SV) else lift(v)
                return self.map_store(TMap(idx.ty, vv.ty).empty(), idx, vv)
            d = obj.copy()
            d.items[idx] = (z3.BoolVal(True), v)
            return d
        if isinstance(obj, SV) and isinstance(obj.ty, TMap):
            return self.map_store(obj, idx, v)
        if isinstance(obj, SV) and isinstance(obj.ty, TOMap):
            return self.omap_store(obj, idx, v)
        if isinstance(obj, SV) and isinstance(obj.ty, (TRef, TRec)):
            m = self.find_method_for_type(obj.ty, "__setitem__")
            if m:
                self.call_function(m[0], [obj, idx, v], {}, node, cls=m[1])
                return None
            if isinstance(obj.ty, TRef):
                self.call_extern(f"ext:{obj.ty.cls}.__setitem__", [obj, idx, v], {}, node, None)
                return None
        if isinstance(obj, list) and isinstance(idx, int):
            o = list(obj)
            o[idx] = v
            return o
        raise Unsupported(f"item assignment on {obj!r}")

    def map_store(self, m, k, v):
        ty = m.ty
        k = canon(lift(k, ty.key) if not isinstance(k, (tuple, list)) else self.lift_like(k, ty.key))
        v = lift(v, ty.val) if not isinstance(v, (tuple, list)) else self.lift_like(v, ty.val)
        return ty.mk(z3.SetAdd(ty.dom(m).t, k.t), z3.Store(ty.arr(m), k.t, v.t))

    def del_item(self, t):
        obj = self.eval(t.value)
        idx = self.eval(t.slice)
        if isinstance(obj, SV) and isinstance(obj.ty, TMap):
            k = canon(lift(idx, obj.ty.key))
            if not self.branch(obj.contains(k)):
                raise RaiseEx("KeyError", None, t)
            self.assign(t.value, obj.ty.mk(z3.SetDel(obj.ty.dom(obj).t, k.t), obj.ty.arr(obj)))
            return
        if isinstance(obj, SV) and isinstance(obj.ty, TOMap):
            # del d[k] on an insertion-ordered dict: a fresh dict without k, every other key with its value; the ORDER of
            # the remaining keys is left unspecified (over-approximation: Python keeps it)
            k = self._elem(idx, obj.ty.key)
            if not self.branch(self.omap_dom(obj).contains(k)):
                raise RaiseEx("KeyError", None, t)
            new = obj.ty.fresh("deld")
            self.st.pc.append(self.omap_wf(new).t)
            self.st.pc.append((self.omap_dom(new) == self.omap_dom(obj) - self.omap_dom(obj).ty.empty().add(k)).t)
            x = z3.Const(f"x!del{self.fresh_id()}", obj.ty.key.sort())
            xs = SV(x, obj.ty.key)
            self.st.pc.append(z3.ForAll([x], z3.Implies(self.omap_dom(new).contains(xs).t, obj.ty.at(new, xs).t == obj.ty.at(obj, xs).t)))
            self.assign(t.value, new)
            return
        if isinstance(obj, SV) and isinstance(obj.ty, (TRef, TRec)):
            m = self.find_method_for_type(obj.ty, "__delitem__")
            if m:
                self.call_function(m[0], [obj, idx], {}, t, cls=m[1])
                return
            if isinstance(obj.ty, TRef) and self.reg.get(f"ext:{obj.ty.cls}.__delitem__") is not None:
                self.call_extern(f"ext:{obj.ty.cls}.__delitem__", [obj, idx], {}, t, None)
                return
        raise Unsupported(f"del item of {obj!r}")
