"""Execution state, control-flow signals and obligations."""
from __future__ import annotations

import z3

from .types import SV, TBool, TRef, Unsupported, lift


class PathEnd(Exception):
    """this path is finished (infeasible, or cut at a loop head)"""


class ReturnEx(Exception):
    def __init__(self, value):
        self.value = value


class BreakEx(Exception):
    pass


class ContinueEx(Exception):
    pass


class RaiseEx(Exception):
    """a Python exception raised by the interpreted code"""

    def __init__(self, cls, payload=None, node=None):
        self.cls = cls  # class name (string)
        self.payload = payload
        self.node = node


class MergeFail(Exception):
    pass


# exception hierarchy used by `except` matching (child -> parent)
EXC_PARENT = {
    "Exception": "BaseException",
    "KeyError": "LookupError",
    "IndexError": "LookupError",
    "LookupError": "Exception",
    "ShortKeyError": "KeyError",
    "StorageKeyError": "KeyError",
    "ValueError": "Exception",
    "TypeError": "Exception",
    "AttributeError": "Exception",
    "AssertionError": "Exception",
    "NotImplementedError": "RuntimeError",
    "RuntimeError": "Exception",
    "OSError": "Exception",
    "FileNotFoundError": "OSError",
    "FileExistsError": "OSError",
    "PermissionError": "OSError",
    "IsADirectoryError": "OSError",
    "NotADirectoryError": "OSError",
    "ObjectFormatError": "Exception",
    "ObjectDBPermissionError": "Exception",
    "ObjectDBError": "Exception",
    "DataIndexDirError": "Exception",
    "MergeError": "Exception",
    "PromptError": "Exception",
    "CheckoutError": "Exception",
    "LinkError": "Exception",
    "StorageError": "Exception",
    "StopIteration": "Exception",
    "UnpackError": "ValueError",
}


def exc_isa(cls, parent):
    while cls is not None:
        if cls == parent:
            return True
        cls = EXC_PARENT.get(cls)
    return False


class Obligation:
    __slots__ = ("oid", "kind", "pc", "goal", "line", "func", "note", "props", "result", "model", "time", "backend", "smt2", "cvc5", "subqueries", "failed_goal")

    def __init__(self, oid, kind, pc, goal, line, func, note=""):
        self.oid = oid
        self.kind = kind
        self.pc = pc
        self.goal = goal
        self.line = line
        self.func = func
        self.note = note
        self.result = None
        self.model = None
        self.time = 0.0
        self.backend = None
        self.smt2 = None

    def key(self):
        return (self.oid, z3.And(*self.pc).hash() if self.pc else 0, self.goal.hash())


class State:
    def __init__(self):
        self.pc: list = []
        self.heap: dict[str, object] = {}  # 'Cls.field' -> Array(Int, sort) | 'G.name' -> term (SV)
        self.alloc = z3.Const("alloc0", z3.SetSort(z3.IntSort()))
        self.yielded = None

    def snapshot(self):
        return (list(self.pc), dict(self.heap), self.alloc, self.yielded)

    def restore(self, snap):
        self.pc, self.heap, self.alloc, self.yielded = list(snap[0]), dict(snap[1]), snap[2], snap[3]


class HeapView:
    """read access to a heap snapshot for contracts"""

    def __init__(self, heap, alloc, engine):
        self._heap = heap
        self._alloc = alloc
        self._engine = engine

    def get(self, field, ref: SV):
        cls, f = field.split(".")
        arr = self._engine.heap_array(self._heap, cls, f)
        fty = TRef.registry[cls].field_ty(f)
        return SV(z3.Select(arr, ref.t), fty)

    def of(self, ref: SV):
        return _ObjView(self, ref)

    def G(self, name):
        k = "G." + name
        if k not in self._heap:
            self._heap[k] = self._engine.ghost_initial(name)
        return self._heap[k]

    def allocated(self, ref):
        return SV(z3.IsMember(ref.t, self._alloc), TBool)

    def raw(self, key):
        """the whole array of a field in this heap.  A field that has not been touched yet is materialised as its entry-state
        constant (returning None here made `h.raw(k) == h0.raw(k)` the Python value True and silently dropped frame clauses)"""
        if key not in self._heap:
            if key.startswith("G."):
                return self.G(key[2:])
            cls, f = key.split(".")
            self._engine.heap_array(self._heap, cls, f)
        return self._heap[key]


class _ObjView:
    def __init__(self, hv, ref):
        self._hv = hv
        self._ref = ref

    def __getattr__(self, f):
        if f.startswith("_"):
            raise AttributeError(f)
        ty = self._ref.ty
        if isinstance(ty, TRef):
            owner = ty.field_owner(f)
            if owner is None:
                raise AttributeError(f"{ty.name} has no field {f}")
            v = self._hv.get(f"{owner}.{f}", self._ref)
            if isinstance(v.ty, TRef):
                return v
            return v
        raise AttributeError(f)
