"""Model -> real Python values, and native replay of pure functions."""
from __future__ import annotations

import fractions
import importlib

import z3

from .types import (
    SV,
    TAbs,
    TBool,
    TBytes,
    TFn,
    TInt,
    TMap,
    TOpt,
    TReal,
    TRec,
    TRef,
    TSeq,
    TSet,
    TStr,
    TTuple,
    Unsupported,
    lift,
)


class NotConcretizable(Exception):
    pass


class AbsVal:
    """a value of an uninterpreted sort"""

    def __init__(self, name):
        self.name = name

    def __eq__(self, o):
        return isinstance(o, AbsVal) and o.name == self.name

    def __hash__(self):
        return hash(self.name)

    def __repr__(self):
        return f"<{self.name}>"


def _real_class(qualname):
    mod, _, name = qualname.partition(":")
    m = importlib.import_module(mod)
    obj = m
    for p in name.split("."):
        obj = getattr(obj, p)
    return obj


def to_python(m: z3.ModelRef, v: SV):
    t = m.eval(v.t, model_completion=True)
    return _conv(m, t, v.ty)


def _conv(m, t, ty):
    if ty == TInt:
        return t.as_long()
    if ty == TBool:
        return z3.is_true(t)
    if ty == TStr:
        return t.as_string() if z3.is_string_value(t) else _fail(t)
    if ty == TReal:
        return float(fractions.Fraction(t.numerator_as_long(), t.denominator_as_long()))
    if isinstance(ty, TOpt):
        if z3.is_true(m.eval(ty.is_none(SV(t, ty)).t, model_completion=True)):
            return None
        return _conv(m, m.eval(ty.val(SV(t, ty)).t, model_completion=True), ty.elem)
    if isinstance(ty, TSeq):
        n = m.eval(z3.Length(t), model_completion=True).as_long()
        if n > 10000:
            raise NotConcretizable("sequence too long")
        elems = [_conv(m, m.eval(t[i], model_completion=True), ty.elem) for i in range(n)]
        if ty == TBytes:
            return bytes(elems)
        return tuple(elems)
    if ty.name == "Byte":
        return t.as_long()
    if isinstance(ty, TTuple):
        return tuple(_conv(m, m.eval(ty.get(SV(t, ty), i).t, model_completion=True), e) for i, e in enumerate(ty.elems))
    if isinstance(ty, TRec):
        kw = {f: _conv(m, m.eval(ty.get(SV(t, ty), f).t, model_completion=True), ft) for f, ft in ty.fields.items()}
        if ty.qualname:
            cls = _real_class(ty.qualname)
            try:
                return cls(**kw)
            except TypeError:
                obj = cls.__new__(cls)
                for k, x in kw.items():
                    object.__setattr__(obj, k, x)
                return obj
        return kw
    if isinstance(ty, TAbs):
        return AbsVal(str(t))
    if isinstance(ty, TFn):
        return _fn_from_array(m, t, ty)
    raise NotConcretizable(f"cannot concretize {ty}")


def _fail(t):
    raise NotConcretizable(f"not a value: {t}")


def _fn_from_array(m, t, ty):
    """K(...)/Store(...) chains and lambdas -> Python callable evaluating through the model"""

    def f(x):
        xv = from_python(x, ty.arg)
        r = m.eval(z3.Select(t, xv.t), model_completion=True)
        return _conv(m, r, ty.ret)

    return f


def from_python(x, ty) -> SV:
    """real Python value -> literal SV of type ty"""
    if isinstance(ty, TOpt):
        if x is None:
            return ty.none()
        return ty.some(from_python(x, ty.elem))
    if isinstance(ty, TRec):
        return ty.mk(**{f: from_python(getattr(x, f), ft) for f, ft in ty.fields.items()})
    if isinstance(ty, TSeq) and ty != TBytes:
        parts = [z3.Unit(from_python(e, ty.elem).t) for e in x]
        if not parts:
            return SV(z3.Empty(ty.sort()), ty)
        return SV(parts[0] if len(parts) == 1 else z3.Concat(*parts), ty)
    if isinstance(ty, TTuple):
        return ty.mk(*[from_python(e, t) for e, t in zip(x, ty.elems)])
    if isinstance(ty, TAbs):
        return SV(z3.Const(x.name, ty.sort()), ty) if isinstance(x, AbsVal) else _fail(x)
    if ty == TReal:
        return lift(float(x), TReal)
    return lift(x, ty)


def resolve_model(pc, goal, timeout_ms=20000):
    """re-solve a failed obligation in this process to get a model object"""
    from .types import BACKGROUND

    s = z3.Solver()
    s.set("timeout", timeout_ms)
    for a in BACKGROUND:
        s.add(a)
    for p in pc:
        s.add(p)
    s.add(z3.Not(goal))
    if s.check() == z3.sat:
        return s.model()
    return None
