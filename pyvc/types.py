"""Type descriptors and symbolic values for pyvc.

Every symbolic value is a z3 term tagged with a Python-level type descriptor
(`Ty`).  Concrete Python scalars (int/bool/str/bytes/None/float) are allowed
wherever a value is expected and are lifted on demand.
"""
from __future__ import annotations

import fractions
import itertools

import z3

_dt_cache: dict[str, object] = {}
_fresh = itertools.count()


def fresh_name(base: str) -> str:
    return f"{base}!{next(_fresh)}"


class Unsupported(Exception):
    """Construct outside the verified subset -> the function is undecided."""


# --------------------------------------------------------------------------
# types
# --------------------------------------------------------------------------
class Ty:
    name = "?"

    def sort(self):
        raise NotImplementedError

    def __repr__(self):
        return self.name

    def __eq__(self, o):
        return isinstance(o, Ty) and self.name == o.name

    def __hash__(self):
        return hash(self.name)

    def fresh(self, base="v"):
        return SV(z3.Const(fresh_name(base), self.sort()), self)

    def const(self, name):
        return SV(z3.Const(name, self.sort()), self)


class _Prim(Ty):
    def __init__(self, name, mk):
        self.name = name
        self._mk = mk

    def sort(self):
        return self._mk()


TInt = _Prim("Int", z3.IntSort)
TBool = _Prim("Bool", z3.BoolSort)
TStr = _Prim("Str", z3.StringSort)
TReal = _Prim("Real", z3.RealSort)
_BV8 = z3.BitVecSort(8)
TByte = _Prim("Byte", lambda: _BV8)


class TSeq(Ty):
    def __init__(self, elem: Ty):
        self.elem = elem
        self.name = f"Seq[{elem.name}]"

    def sort(self):
        return z3.SeqSort(self.elem.sort())


TBytes = TSeq(TByte)
TBytes.name = "Bytes"
TKey = TSeq(TStr)  # a tuple of str of unknown length (index keys, tree keys)
TKey.name = "Key"


class TAbs(Ty):
    """uninterpreted sort (identity only)"""

    def __init__(self, name):
        self.name = name

    def sort(self):
        if self.name not in _dt_cache:
            _dt_cache[self.name] = z3.DeclareSort(self.name)
        return _dt_cache[self.name]


class TOpt(Ty):
    def __new__(cls, elem):
        if isinstance(elem, TOpt):
            return elem
        return super().__new__(cls)

    def __init__(self, elem: Ty):
        if isinstance(elem, TOpt) and elem is self:
            return
        self.elem = elem
        self.name = f"Opt[{elem.name}]"

    def _dt(self):
        key = "DT:" + self.name
        if key not in _dt_cache:
            d = z3.Datatype(_san(self.name))
            n = _san(self.name)
            d.declare("none_" + n)
            d.declare("some_" + n, ("val_" + n, self.elem.sort()))
            _dt_cache[key] = d.create()
        return _dt_cache[key]

    def sort(self):
        return self._dt()

    def none(self):
        return SV(getattr(self._dt(), "none_" + _san(self.name)), self)

    def some(self, v):
        v = lift(v, self.elem)
        return SV(getattr(self._dt(), "some_" + _san(self.name))(v.t), self)

    def is_none(self, x):
        return SV(getattr(self._dt(), "is_none_" + _san(self.name))(x.t), TBool)

    def is_some(self, x):
        return SV(getattr(self._dt(), "is_some_" + _san(self.name))(x.t), TBool)

    def val(self, x):
        return SV(getattr(self._dt(), "val_" + _san(self.name))(x.t), self.elem)


class TSet(Ty):
    def __init__(self, elem: Ty):
        self.elem = elem
        self.name = f"Set[{elem.name}]"

    def sort(self):
        return z3.SetSort(self.elem.sort())

    def empty(self):
        return SV(z3.EmptySet(self.elem.sort()), self)


class TMap(Ty):
    """finite map: (dom: Set K, val: Array K V).  Insertion order is not
    modelled; iteration over a map is proved for every order."""

    def __init__(self, key: Ty, val: Ty):
        self.key = key
        self.val = val
        self.name = f"Map[{key.name},{val.name}]"

    def _dt(self):
        k = "DT:" + self.name
        if k not in _dt_cache:
            d = z3.Datatype(_san(self.name))
            n = _san(self.name)
            d.declare(
                "mk_" + n,
                ("dom_" + n, z3.SetSort(self.key.sort())),
                ("arr_" + n, z3.ArraySort(self.key.sort(), self.val.sort())),
            )
            _dt_cache[k] = d.create()
        return _dt_cache[k]

    def sort(self):
        return self._dt()

    def mk(self, dom, arr):
        return SV(getattr(self._dt(), "mk_" + _san(self.name))(dom, arr), self)

    def dom(self, m):
        return SV(getattr(self._dt(), "dom_" + _san(self.name))(m.t), TSet(self.key))

    def arr(self, m):
        return getattr(self._dt(), "arr_" + _san(self.name))(m.t)

    def empty(self):
        # the value array of the empty map is arbitrary but fixed
        arr = z3.Const("emptyarr_" + _san(self.name), z3.ArraySort(self.key.sort(), self.val.sort()))
        return self.mk(z3.EmptySet(self.key.sort()), arr)


class TList(Ty):
    """Python list modelled as (len, Array Int -> T): quantified invariants over it stay in the array property fragment"""

    def __init__(self, elem: Ty):
        self.elem = elem
        self.name = f"List[{elem.name}]"

    def _dt(self):
        k = "DT:" + self.name
        if k not in _dt_cache:
            n = _san(self.name)
            d = z3.Datatype(n)
            d.declare("mk_" + n, ("len_" + n, z3.IntSort()), ("arr_" + n, z3.ArraySort(z3.IntSort(), self.elem.sort())))
            _dt_cache[k] = d.create()
        return _dt_cache[k]

    def sort(self):
        return self._dt()

    def mk(self, n, arr):
        return SV(getattr(self._dt(), "mk_" + _san(self.name))(n, arr), self)

    def len(self, x):
        return SV(getattr(self._dt(), "len_" + _san(self.name))(x.t), TInt)

    def arr(self, x):
        return getattr(self._dt(), "arr_" + _san(self.name))(x.t)

    def at(self, x, i):
        return SV(z3.Select(self.arr(x), lift(i, TInt).t), self.elem)

    def empty(self):
        arr = z3.Const("emptylist_" + _san(self.name), z3.ArraySort(z3.IntSort(), self.elem.sort()))
        return self.mk(z3.IntVal(0), arr)

    def append(self, x, v):
        n = self.len(x).t
        return self.mk(n + 1, z3.Store(self.arr(x), n, lift(v, self.elem).t))


class TOMap(Ty):
    """insertion-ordered dict: (keys: duplicate-free list, arr: Array K V).  elems(keys) is its domain."""

    def __init__(self, key: Ty, val: Ty):
        self.key = key
        self.val = val
        self.name = f"OMap[{key.name},{val.name}]"
        self.keys_ty = TList(key)

    def _dt(self):
        k = "DT:" + self.name
        if k not in _dt_cache:
            n = _san(self.name)
            d = z3.Datatype(n)
            d.declare("mk_" + n, ("keys_" + n, self.keys_ty.sort()), ("arr_" + n, z3.ArraySort(self.key.sort(), self.val.sort())))
            _dt_cache[k] = d.create()
        return _dt_cache[k]

    def sort(self):
        return self._dt()

    def mk(self, keys, arr):
        return SV(getattr(self._dt(), "mk_" + _san(self.name))(keys.t if isinstance(keys, SV) else keys, arr), self)

    def keys(self, m):
        return SV(getattr(self._dt(), "keys_" + _san(self.name))(m.t), self.keys_ty)

    def arr(self, m):
        return getattr(self._dt(), "arr_" + _san(self.name))(m.t)

    def at(self, m, k):
        return SV(z3.Select(self.arr(m), lift(k, self.key).t), self.val)

    def empty(self):
        arr = z3.Const("emptyomap_" + _san(self.name), z3.ArraySort(self.key.sort(), self.val.sort()))
        return self.mk(self.keys_ty.empty(), arr)


class TTuple(Ty):
    def __init__(self, elems):
        self.elems = tuple(elems)
        self.name = "Tup[" + ",".join(e.name for e in self.elems) + "]"

    def _dt(self):
        k = "DT:" + self.name
        if k not in _dt_cache:
            d = z3.Datatype(_san(self.name))
            n = _san(self.name)
            d.declare("mk_" + n, *[(f"f{i}_{n}", e.sort()) for i, e in enumerate(self.elems)])
            _dt_cache[k] = d.create()
        return _dt_cache[k]

    def sort(self):
        return self._dt()

    def mk(self, *vals):
        vs = [lift(v, e) for v, e in zip(vals, self.elems)]
        return SV(getattr(self._dt(), "mk_" + _san(self.name))(*[v.t for v in vs]), self)

    def get(self, x, i):
        return SV(getattr(self._dt(), f"f{i}_{_san(self.name)}")(x.t), self.elems[i])


class TRec(Ty):
    """value record (attrs class / NamedTuple).  `fields` maps name -> Ty;
    `eq_fields` are the fields taking part in ==/hash; `defaults` maps name ->
    concrete default value (for construction with missing args)."""

    registry: dict[str, "TRec"] = {}

    def __init__(self, name, fields=None, eq_fields=None, defaults=None, qualname=None):
        self.name = name
        self.fields = dict(fields or {})
        self.eq_fields = list(eq_fields) if eq_fields is not None else list(self.fields)
        self.defaults = dict(defaults or {})
        self.qualname = qualname
        TRec.registry[name] = self

    def _dt(self):
        k = "DT:" + self.name
        if k not in _dt_cache:
            d = z3.Datatype(_san(self.name))
            d.declare("mk_" + self.name, *[(f"{self.name}_{n}", t.sort()) for n, t in self.fields.items()])
            _dt_cache[k] = d.create()
        return _dt_cache[k]

    def sort(self):
        return self._dt()

    def mk(self, **kw):
        args = []
        for n, t in self.fields.items():
            if n in kw:
                v = kw[n]
            elif n in self.defaults:
                v = self.defaults[n]
            else:
                raise Unsupported(f"{self.name}: missing field {n}")
            args.append(lift(v, t).t)
        return SV(getattr(self._dt(), "mk_" + self.name)(*args), self)

    def get(self, x, n):
        if n not in self.fields:
            raise AttributeError(n)
        return SV(getattr(self._dt(), f"{self.name}_{n}")(x.t), self.fields[n])

    def update(self, x, n, v):
        kw = {f: self.get(x, f) for f in self.fields}
        kw[n] = v
        return self.mk(**kw)

    def has_noneq(self):
        return len(self.eq_fields) != len(self.fields)


class TRef(Ty):
    """reference to a heap object of class `cls`.  Fields live in the heap:
    heap['Cls.field'] : Array(Int, fieldsort)."""

    registry: dict[str, "TRef"] = {}

    def __init__(self, cls, fields=None, qualname=None, bases=()):
        self.cls = cls
        self.name = f"Ref[{cls}]"
        self.fields = dict(fields or {})
        self.qualname = qualname
        self.bases = tuple(bases)
        TRef.registry[cls] = self

    def sort(self):
        return z3.IntSort()

    def field_owner(self, f):
        """name of the class (self or a base) that declares field f"""
        if f in self.fields:
            return self.cls
        for b in self.bases:
            o = TRef.registry[b].field_owner(f)
            if o:
                return o
        return None

    def field_ty(self, f):
        if f in self.fields:
            return self.fields[f]
        for b in self.bases:
            t = TRef.registry[b].field_ty(f)
            if t is not None:
                return t
        return None

    def isa(self, cls):
        return self.cls == cls or any(TRef.registry[b].isa(cls) for b in self.bases)


class TFn(Ty):
    """symbolic unary function value (e.g. a cmp_key callable)"""

    def __init__(self, arg: Ty, ret: Ty):
        self.arg = arg
        self.ret = ret
        self.name = f"Fn[{arg.name}->{ret.name}]"

    def sort(self):
        return z3.ArraySort(self.arg.sort(), self.ret.sort())


def _san(s):
    return (
        s.replace("[", "_").replace("]", "").replace(",", "_").replace(" ", "").replace("->", "_to_")
    )


# --------------------------------------------------------------------------
# symbolic values
# --------------------------------------------------------------------------
class SV:
    __slots__ = ("t", "ty")

    def __init__(self, t, ty):
        object.__setattr__(self, "t", t)
        object.__setattr__(self, "ty", ty)

    def __repr__(self):
        return f"SV<{self.ty.name}>({self.t})"

    def __hash__(self):
        return hash((self.t.hash() if hasattr(self.t, "hash") else id(self.t), self.ty.name))

    def __bool__(self):
        t = z3.simplify(self.t) if self.ty == TBool else None
        if t is not None and z3.is_true(t):
            return True
        if t is not None and z3.is_false(t):
            return False
        raise TypeError(f"symbolic value used as a Python bool: {self}")

    # ---- logic (contracts) ----
    def __and__(self, o):
        return SV(z3.And(self.t, lift(o, TBool).t), TBool)

    __rand__ = __and__

    def __or__(self, o):
        return SV(z3.Or(self.t, lift(o, TBool).t), TBool)

    __ror__ = __or__

    def __invert__(self):
        return SV(z3.Not(self.t), TBool)

    def __rshift__(self, o):  # implication
        return SV(z3.Implies(self.t, lift(o, TBool).t), TBool)

    # ---- comparisons ----
    def __eq__(self, o):  # type: ignore[override]
        return py_eq(self, o)

    def __ne__(self, o):  # type: ignore[override]
        return ~py_eq(self, o)

    def _arith(self, o, f):
        a, b = unify(self, o)
        return SV(f(a.t, b.t), a.ty)

    def _cmp(self, o, f):
        a, b = unify(self, o)
        # strings compare lexicographically by code point in Python and in SMT-LIB (str.<, str.<=) alike
        return SV(f(a.t, b.t), TBool)

    def __lt__(self, o):
        return self._cmp(o, lambda a, b: a < b)

    def __le__(self, o):
        return self._cmp(o, lambda a, b: a <= b)

    def __gt__(self, o):
        return self._cmp(o, lambda a, b: a > b)

    def __ge__(self, o):
        return self._cmp(o, lambda a, b: a >= b)

    def __add__(self, o):
        if isinstance(self.ty, TSeq) or self.ty == TStr:
            b = lift(o, self.ty)
            return SV(z3.Concat(self.t, b.t), self.ty)
        return self._arith(o, lambda a, b: a + b)

    def __radd__(self, o):
        if isinstance(self.ty, TSeq) or self.ty == TStr:
            b = lift(o, self.ty)
            return SV(z3.Concat(b.t, self.t), self.ty)
        return self._arith(o, lambda a, b: b + a)

    def __sub__(self, o):
        if isinstance(self.ty, TSet):
            return SV(z3.SetDifference(self.t, lift(o, self.ty).t), self.ty)
        return self._arith(o, lambda a, b: a - b)

    def __rsub__(self, o):
        return self._arith(o, lambda a, b: b - a)

    def __mul__(self, o):
        return self._arith(o, lambda a, b: a * b)

    __rmul__ = __mul__

    def __neg__(self):
        return SV(-self.t, self.ty)

    # ---- records / options (contract convenience; no obligations) ----
    def __getattr__(self, n):
        ty = object.__getattribute__(self, "ty")
        if n.startswith("__"):
            raise AttributeError(n)
        if isinstance(ty, TOpt):
            if n == "is_none":
                return ty.is_none(self)
            if n == "is_some":
                return ty.is_some(self)
            if n == "val":
                return ty.val(self)
            return getattr(ty.val(self), n)
        if isinstance(ty, TRec):
            return ty.get(self, n)
        if isinstance(ty, TMap):
            if n == "dom":
                return ty.dom(self)
        raise AttributeError(f"{ty.name} has no attribute {n}")

    def __getitem__(self, i):
        ty = self.ty
        if isinstance(ty, TTuple):
            return ty.get(self, i)
        if isinstance(ty, TMap):
            return SV(z3.Select(ty.arr(self), lift(i, ty.key).t), ty.val)
        if isinstance(ty, TFn):
            return SV(z3.Select(self.t, lift(i, ty.arg).t), ty.ret)
        if isinstance(ty, TList):
            return ty.at(self, i)
        if isinstance(ty, TOMap):
            return ty.at(self, i)
        if isinstance(ty, TSeq) or ty == TStr:
            if isinstance(i, slice):
                return seq_slice(self, i.start, i.stop)
            ety = TStr if ty == TStr else ty.elem
            idx = lift(i, TInt)
            if ty == TStr:
                return SV(z3.SubString(self.t, idx.t, 1), TStr)
            return SV(self.t[idx.t], ety)
        raise Unsupported(f"indexing {ty.name}")

    # ---- collections ----
    def contains(self, x):
        ty = self.ty
        if isinstance(ty, TSet):
            return SV(z3.IsMember(canon(lift(x, ty.elem)).t, self.t), TBool)
        if isinstance(ty, TMap):
            return SV(z3.IsMember(canon(lift(x, ty.key)).t, ty.dom(self).t), TBool)
        if ty == TStr:
            return SV(z3.Contains(self.t, lift(x, TStr).t), TBool)
        if isinstance(ty, TSeq):
            if isinstance(x, (bytes, tuple, list)):
                return SV(z3.Contains(self.t, lift(x, ty).t), TBool)
            xv = lift(x, ty.elem) if not (isinstance(x, SV) and x.ty == ty) else x
            if xv.ty == ty:
                return SV(z3.Contains(self.t, xv.t), TBool)
            return SV(z3.Contains(self.t, z3.Unit(xv.t)), TBool)
        raise Unsupported(f"'in' on {ty.name}")

    def length(self):
        ty = self.ty
        if isinstance(ty, TSeq) or ty == TStr:
            return SV(z3.Length(self.t), TInt)
        if isinstance(ty, TList):
            return ty.len(self)
        if isinstance(ty, TOMap):
            return ty.keys_ty.len(ty.keys(self))
        raise Unsupported(f"len() of {ty.name} (cardinality is not modelled)")

    def union(self, o):
        return SV(z3.SetUnion(self.t, lift(o, self.ty).t), self.ty)

    def inter(self, o):
        return SV(z3.SetIntersect(self.t, lift(o, self.ty).t), self.ty)

    def subset(self, o):
        return SV(z3.IsSubset(self.t, lift(o, self.ty).t), TBool)

    def add(self, x):
        return SV(z3.SetAdd(self.t, canon(lift(x, self.ty.elem)).t), self.ty)

    def remove(self, x):
        return SV(z3.SetDel(self.t, canon(lift(x, self.ty.elem)).t), self.ty)

    def is_empty(self):
        ty = self.ty
        if isinstance(ty, TSet):
            return SV(self.t == z3.EmptySet(ty.elem.sort()), TBool)
        if isinstance(ty, TMap):
            return ty.dom(self).is_empty()
        return self.length() == 0


def B(t):
    return SV(t, TBool)


def And(*xs):
    xs = [lift(x, TBool).t for x in xs]
    return SV(z3.And(*xs) if xs else z3.BoolVal(True), TBool)


def Or(*xs):
    xs = [lift(x, TBool).t for x in xs]
    return SV(z3.Or(*xs) if xs else z3.BoolVal(False), TBool)


def Not(x):
    return SV(z3.Not(lift(x, TBool).t), TBool)


def Implies(a, b):
    return SV(z3.Implies(lift(a, TBool).t, lift(b, TBool).t), TBool)


def Ite(c, a, b):
    a, b = unify(a, b)
    return SV(z3.If(lift(c, TBool).t, a.t, b.t), a.ty)


def ForAll(vs, body):
    vs = vs if isinstance(vs, (list, tuple)) else [vs]
    return SV(z3.ForAll([v.t for v in vs], lift(body, TBool).t), TBool)


def Exists(vs, body):
    vs = vs if isinstance(vs, (list, tuple)) else [vs]
    return SV(z3.Exists([v.t for v in vs], lift(body, TBool).t), TBool)


# --------------------------------------------------------------------------
# lifting / unification / equality / truthiness
# --------------------------------------------------------------------------
def type_of_concrete(v):
    if isinstance(v, bool):
        return TBool
    if isinstance(v, int):
        return TInt
    if isinstance(v, str):
        return TStr
    if isinstance(v, bytes):
        return TBytes
    if isinstance(v, float):
        return TReal
    if isinstance(v, tuple) and all(isinstance(x, str) for x in v):
        return TKey
    return None


def bytes_lit(b: bytes):
    if len(b) == 0:
        return z3.Empty(TBytes.sort())
    units = [z3.Unit(z3.BitVecVal(x, 8)) for x in b]
    return units[0] if len(units) == 1 else z3.Concat(*units)


def lift(v, ty: Ty | None = None) -> SV:
    """concrete Python value (or SV) -> SV of type `ty` (or its natural type)."""
    if isinstance(v, z3.BoolRef):
        v = SV(v, TBool)
    if isinstance(v, SV):
        if ty is None or v.ty == ty:
            return v
        if isinstance(ty, TOpt):
            if isinstance(v.ty, TOpt):
                raise Unsupported(f"cannot coerce {v.ty} to {ty}")
            return ty.some(lift(v, ty.elem))
        if isinstance(ty, TRef) and isinstance(v.ty, TRef) and (v.ty.isa(ty.cls) or ty.isa(v.ty.cls)):
            return SV(v.t, ty)
        if ty == TReal and v.ty == TInt:
            return SV(z3.ToReal(v.t), TReal)
        if ty == TInt and v.ty == TBool:
            return SV(z3.If(v.t, 1, 0), TInt)
        if isinstance(ty, TSeq) and isinstance(v.ty, TTuple) and all(e == ty.elem for e in v.ty.elems):
            parts = [z3.Unit(v.ty.get(v, i).t) for i in range(len(v.ty.elems))]
            t = z3.Empty(ty.sort()) if not parts else (parts[0] if len(parts) == 1 else z3.Concat(*parts))
            return SV(t, ty)
        raise Unsupported(f"cannot coerce {v.ty} to {ty}")
    if ty is None:
        ty = type_of_concrete(v)
        if ty is None:
            if isinstance(v, (tuple, list)):
                elems = [lift(x) for x in v]
                tt = TTuple([e.ty for e in elems])
                return tt.mk(*elems)
            raise Unsupported(f"cannot lift {v!r} without a type")
    if isinstance(ty, TOpt):
        if v is None:
            return ty.none()
        return ty.some(lift(v, ty.elem))
    if v is None:
        raise Unsupported(f"None where {ty} expected")
    if ty == TBool:
        if isinstance(v, bool):
            return SV(z3.BoolVal(v), TBool)
    elif ty == TInt:
        if isinstance(v, (int, bool)):
            return SV(z3.IntVal(int(v)), TInt)
    elif ty == TReal:
        if isinstance(v, (int, float)):
            fr = fractions.Fraction(repr(v)) if isinstance(v, float) else fractions.Fraction(v)
            return SV(z3.RealVal(str(fr)), TReal)
    elif ty == TStr:
        if isinstance(v, str):
            return SV(z3.StringVal(v), TStr)
    elif ty == TBytes:
        if isinstance(v, (bytes, bytearray)):
            return SV(bytes_lit(bytes(v)), TBytes)
    elif isinstance(ty, TSeq):
        if isinstance(v, (tuple, list)):
            parts = [z3.Unit(lift(x, ty.elem).t) for x in v]
            if not parts:
                return SV(z3.Empty(ty.sort()), ty)
            return SV(parts[0] if len(parts) == 1 else z3.Concat(*parts), ty)
    elif isinstance(ty, TList):
        if isinstance(v, (tuple, list)):
            acc = ty.empty()
            for x in v:
                acc = ty.append(acc, x)
            return acc
    elif isinstance(ty, TTuple):
        if isinstance(v, (tuple, list)) and len(v) == len(ty.elems):
            return ty.mk(*v)
    elif isinstance(ty, TSet):
        if isinstance(v, (set, frozenset, list, tuple)):
            s = ty.empty()
            for x in v:
                s = s.add(x)
            return s
    elif isinstance(ty, (TMap, TOMap)):
        if isinstance(v, dict) and not v:
            return ty.empty()
    raise Unsupported(f"cannot lift {v!r} to {ty}")


def unify(a, b):
    """bring two values to a common type"""
    if not isinstance(a, SV) and not isinstance(b, SV):
        ta, tb = type_of_concrete(a), type_of_concrete(b)
        if a is None and b is None:
            raise Unsupported("unify(None, None)")
        if a is None:
            return TOpt(tb).none(), lift(b, TOpt(tb))
        if b is None:
            return lift(a, TOpt(ta)), TOpt(ta).none()
        a = lift(a)
        b = lift(b)
    if not isinstance(a, SV):
        if a is None and not isinstance(b.ty, TOpt):
            o = TOpt(b.ty)
            return o.none(), o.some(b)
        a = lift(a, b.ty if not (isinstance(b.ty, TOpt) and a is not None and type_of_concrete(a) == b.ty.elem) else b.ty)
    if not isinstance(b, SV):
        if b is None and not isinstance(a.ty, TOpt):
            o = TOpt(a.ty)
            return o.some(a), o.none()
        b = lift(b, a.ty)
    if a.ty == b.ty:
        return a, b
    if isinstance(a.ty, TOpt) and a.ty.elem == b.ty:
        return a, a.ty.some(b)
    if isinstance(b.ty, TOpt) and b.ty.elem == a.ty:
        return b.ty.some(a), b
    if {a.ty, b.ty} == {TInt, TReal}:
        return lift(a, TReal), lift(b, TReal)
    if {a.ty, b.ty} == {TInt, TBool}:
        return lift(a, TInt), lift(b, TInt)
    if isinstance(a.ty, TTuple) and isinstance(b.ty, TSeq):
        return lift(a, b.ty), b
    if isinstance(b.ty, TTuple) and isinstance(a.ty, TSeq):
        return a, lift(b, a.ty)
    raise Unsupported(f"cannot unify {a.ty} and {b.ty}")


_canon_fn: dict[str, object] = {}
BACKGROUND: list = []  # definitional axioms added to every query


def canon(v: SV) -> SV:
    """normal form w.r.t. Python equality: eq=False fields of records are
    replaced by a fixed value, recursively through options/tuples.  Each type
    gets one defined function canon_<T> so that terms stay small."""
    ty = v.ty
    if not _needs_canon(ty):
        return v
    k = (v.t.get_id(), ty.name)
    r = _canon_cache.get(k)
    if r is None:
        r = _canon_body(v)
        _canon_cache[k] = r
        _canon_keep.append(v.t)  # keep the AST alive so that its id is not reused
    return r


_canon_cache: dict = {}
_canon_keep: list = []


def _canon_body(v: SV) -> SV:
    ty = v.ty
    if isinstance(ty, TRec):
        kw = {}
        for f, ft in ty.fields.items():
            if f in ty.eq_fields:
                kw[f] = canon(ty.get(v, f))
            else:
                kw[f] = default_value(ft)
        return ty.mk(**kw)
    if isinstance(ty, TOpt):
        inner = canon(ty.val(v))
        return SV(z3.If(ty.is_none(v).t, ty.none().t, ty.some(inner).t), ty)
    if isinstance(ty, TTuple):
        return ty.mk(*[canon(ty.get(v, i)) for i in range(len(ty.elems))])
    return v


def _needs_canon(ty):
    if isinstance(ty, TRec):
        return ty.has_noneq() or any(_needs_canon(t) for f, t in ty.fields.items() if f in ty.eq_fields)
    if isinstance(ty, TOpt):
        return _needs_canon(ty.elem)
    if isinstance(ty, TTuple):
        return any(_needs_canon(e) for e in ty.elems)
    return False


def default_value(ty: Ty) -> SV:
    if isinstance(ty, TOpt):
        return ty.none()
    if ty == TBool:
        return lift(False)
    if ty == TInt:
        return lift(0)
    if ty == TStr:
        return lift("")
    if ty == TReal:
        return lift(0, TReal)
    if isinstance(ty, TSeq):
        return SV(z3.Empty(ty.sort()), ty)
    return SV(z3.Const("default_" + _san(ty.name), ty.sort()), ty)


def py_eq(a, b) -> SV:
    """Python `a == b`"""
    if not isinstance(a, SV) and not isinstance(b, SV):
        return lift(a == b)
    try:
        a, b = unify(a, b)
    except Unsupported:
        ta = a.ty if isinstance(a, SV) else type_of_concrete(a)
        tb = b.ty if isinstance(b, SV) else type_of_concrete(b)
        if ta is not None and tb is not None and _disjoint(ta, tb):
            return lift(False)
        raise
    if isinstance(a.ty, TMap):
        k = a.ty.key.fresh("k")
        da, db = a.ty.dom(a), a.ty.dom(b)
        return SV(
            z3.And(
                da.t == db.t,
                z3.ForAll([k.t], z3.Implies(z3.IsMember(k.t, da.t), z3.Select(a.ty.arr(a), k.t) == z3.Select(a.ty.arr(b), k.t))),
            ),
            TBool,
        )
    return SV(canon(a).t == canon(b).t, TBool)


def _disjoint(ta, tb):
    prim = {TInt, TBool, TStr, TReal}
    if isinstance(ta, TOpt) or isinstance(tb, TOpt):
        return False
    if ta in prim and tb in prim:
        return {ta, tb} not in ({TInt, TReal}, {TInt, TBool}) and ta != tb
    return type(ta) is not type(tb)


def seq_slice(s: SV, lo, hi) -> SV:
    """Python s[lo:hi] with exact clamping; negative bounds only if concrete."""
    n = z3.Length(s.t)

    def norm(x, default):
        if x is None:
            return default
        if isinstance(x, tuple) and x[0] == "from_end":
            v = n - x[1].t
            return z3.If(v < 0, z3.IntVal(0), v)
        if isinstance(x, int) and not isinstance(x, bool):
            if x < 0:
                v = n + x
                return z3.If(v < 0, z3.IntVal(0), v)
            return z3.If(z3.IntVal(x) > n, n, z3.IntVal(x))
        x = lift(x, TInt).t
        # symbolic bound: negative means from the end
        v = z3.If(x < 0, z3.If(n + x < 0, z3.IntVal(0), n + x), z3.If(x > n, n, x))
        return v

    a = norm(lo, z3.IntVal(0))
    b = norm(hi, n)
    ln = z3.If(b - a < 0, z3.IntVal(0), b - a)
    if s.ty == TStr:
        return SV(z3.SubString(s.t, a, ln), TStr)
    return SV(z3.Extract(s.t, a, ln), s.ty)
