"""Engine core: path exploration by replay, decisions, obligations, heap."""
from __future__ import annotations

import ast
import time

import z3

from .contracts import REG, Contract
from .source import ClassDef, FuncDef, Repo
from .state import (
    HeapView,
    MergeFail,
    Obligation,
    PathEnd,
    RaiseEx,
    ReturnEx,
    State,
)
from .types import SV, TBool, TInt, TOpt, TRef, TSeq, Ty, Unsupported, lift

FEAS_TIMEOUT_MS = 250


_quant_cache: dict = {}


def _has_quant(e):
    k = e.get_id()
    r = _quant_cache.get(k)
    if r is not None and r[0].eq(e):
        return r[1]
    todo = [e]
    seen = 0
    res = False
    while todo and seen < 5000:
        x = todo.pop()
        seen += 1
        if z3.is_quantifier(x):
            res = True
            break
        todo.extend(x.children())
    _quant_cache[k] = (e, res)
    return res


class Closure:
    def __init__(self, node, frames, module, name=None, cls=None):
        self.node = node
        self.frames = frames  # list of frame dicts (innermost last), captured by reference
        self.module = module
        self.name = name or getattr(node, "name", "<lambda>")
        self.cls = cls


class BoundMethod:
    def __init__(self, selfv, fdef, self_expr=None, cls=None):
        self.selfv = selfv
        self.fdef = fdef
        self.self_expr = self_expr
        self.cls = cls  # ClassDef of the dynamic class (for super())


class ClassVal:
    """a class object: repo ClassDef plus its value/ref type (if declared)"""

    def __init__(self, cdef: ClassDef, ty: Ty | None):
        self.cdef = cdef
        self.ty = ty

    def __repr__(self):
        return f"<ClassVal {self.cdef.name}>"


class SDict:
    """dict with concrete (constant) keys; each entry (present: z3 Bool, value)."""

    def __init__(self, items=None):
        self.items = dict(items or {})

    def copy(self):
        return SDict(self.items)

    def __repr__(self):
        return f"SDict({list(self.items)})"


class PairList:
    """dict literal with symbolic keys: a fixed-length association list"""

    def __init__(self, pairs):
        self.pairs = list(pairs)

    def __repr__(self):
        return f"PairList({len(self.pairs)})"


class Ctx:
    """what a contract clause sees"""

    def __init__(self, engine, params, h0, h, result=None, loc=None, exc=None):
        object.__setattr__(self, "_params", params)
        self.engine = engine
        self.h0 = h0
        self.h = h
        self.result = result
        self.loc = _Loc(loc or {})
        self.exc = exc
        self.idx = None
        self.seq = None
        self.visited = None
        self.cur = None

    def __getattr__(self, n):
        p = object.__getattribute__(self, "_params")
        if n in p:
            return p[n]
        raise AttributeError(n)


class _Loc:
    def __init__(self, d):
        self._d = d

    def __getattr__(self, n):
        try:
            return self._d[n]
        except KeyError:
            raise LocalGone(n) from None

    def __contains__(self, n):
        return n in self._d


class LocalGone(Exception):
    """an invariant names a local that does not exist (any more) -> undecided"""


class FunctionResult:
    def __init__(self, qualname):
        self.qualname = qualname
        self.obligations: list[Obligation] = []
        self.undecided: list[str] = []
        self.paths = 0
        self.source = None
        self.gen_time = 0.0
        self.assumed_used: set[str] = set()
        self.inlined: set[str] = set()
        self.drops: set[str] = set()


class EngineBase:
    def __init__(self, repo: Repo | None = None, registry=None):
        self.repo = repo or Repo()
        self.reg = registry or REG
        self.st = State()
        self.frames: list[dict] = []
        self.trail: list = []
        self.pos = 0
        self.pending: list = []
        self.obls: dict = {}
        self.cur_fn: FuncDef | None = None
        self.cur_contract: Contract | None = None
        self.res: FunctionResult | None = None
        self.call_depth = 0
        self.module_stack: list = []
        self.class_stack: list = []
        self.max_paths = 4000
        self.ghost_decl: dict[str, object] = {}
        self.site_counter: dict = {}
        self.loop_counter = 0
        self.written_fields: set | None = None
        self.entry_heap = None
        self.entry_alloc = None
        self.entry_params = None

    # ---------------- decisions / feasibility ----------------
    def feasible(self, extra=None):
        from .types import BACKGROUND

        s = z3.Solver()
        s.set("timeout", FEAS_TIMEOUT_MS)
        for a in BACKGROUND:
            s.add(a)
        # quantified hypotheses are left out: pruning on fewer hypotheses is sound (it prunes less) and fast
        for p in self.st.pc:
            if not _has_quant(p):
                s.add(p)
        if extra is not None:
            s.add(extra)
        return s.check() != z3.unsat

    def decide(self, alts):
        """alts: list of z3 Bool conditions (exhaustive). Returns the index taken;
        the chosen condition is added to the path condition."""
        if self.pos < len(self.trail):
            i = self.trail[self.pos]
            if not isinstance(i, int) or i >= len(alts):
                raise Unsupported("path replay diverged (a different decision point was reached than on the recorded path)")
            self.pos += 1
            self.st.pc.append(alts[i])
            return i
        feas = [i for i, c in enumerate(alts) if self.feasible(c)]
        if not feas:
            raise PathEnd()
        if len(feas) > 1 and getattr(self, "merge_depth", 0) > 0:
            # a genuine fork inside a branch that is being merged: the merge is abandoned and the enclosing `if` forks instead
            # (a merged state stands for ONE path through each branch; forks inside would be explored under a recorded
            # "merged" outcome that need not hold for them)
            from .state import MergeFail

            raise MergeFail()
        prefix = self.trail[: self.pos]
        for j in feas[1:]:
            self.pending.append(prefix + [j])
        i = feas[0]
        self.trail = prefix + [i]
        self.pos += 1
        self.st.pc.append(alts[i])
        return i

    def oracle(self, compute):
        """an auxiliary solver answer (feasibility / in-engine proof attempt) taken while a path is explored.  Such answers depend
        on time-outs, so they are RECORDED in the decision trail and re-used when the path is replayed: a path is explored by
        replaying its prefix, and a different answer on replay would silently misalign every later decision."""
        if self.pos < len(self.trail):
            e = self.trail[self.pos]
            if not (isinstance(e, tuple) and e[0] == "o"):
                raise Unsupported("path replay diverged (a solver answer was expected where a branch decision is recorded)")
            self.pos += 1
            return e[1]
        v = compute()
        self.trail = self.trail[: self.pos] + [("o", v)]
        self.pos += 1
        return v

    def branch(self, cond) -> bool:
        """fork on a condition (Python bool, or SV Bool)"""
        if isinstance(cond, bool):
            return cond
        c = z3.simplify(cond.t)
        if z3.is_true(c):
            return True
        if z3.is_false(c):
            return False
        return self.decide([c, z3.Not(c)]) == 0

    def assume(self, cond):
        if isinstance(cond, bool):
            if not cond:
                raise PathEnd()
            return
        self.st.pc.append(cond.t if isinstance(cond, SV) else cond)

    # ---------------- obligations ----------------
    def oblige(self, kind, goal, node=None, note=""):
        """record an obligation under the current path condition"""
        if isinstance(goal, bool):
            goal = z3.BoolVal(goal)
        elif isinstance(goal, SV):
            goal = goal.t
        line = getattr(node, "lineno", None) or (self.cur_fn.node.lineno if self.cur_fn else 0)
        col = getattr(node, "col_offset", 0)
        fn = self.cur_fn
        rel = line - fn.node.lineno if fn else line
        site = (kind, rel, col)
        oid = f"{fn.qualname}#{kind}@L{line}" + (f".{col}" if kind in ("call.pre", "attr", "assert") else "")
        g = z3.simplify(goal)
        if z3.is_true(g):
            # trivially true goals are still counted (as discharged syntactically)
            pass
        ob = Obligation(oid, kind, list(self.st.pc), goal, line, fn.qualname if fn else "?", note)
        k = ob.key()
        if k not in self.obls:
            self.obls[k] = ob
        return ob

    # ---------------- heap ----------------
    def heap_array(self, heap, cls, f):
        key = f"{cls}.{f}"
        if key not in heap:
            fty = TRef.registry[cls].fields[f]
            heap[key] = z3.Const(f"H0_{cls}_{f}", z3.ArraySort(z3.IntSort(), fty.sort()))
        return heap[key]

    def heap_get(self, ref: SV, f):
        owner = ref.ty.field_owner(f)
        if owner is None:
            raise Unsupported(f"{ref.ty.name} has no declared field {f}")
        arr = self.heap_array(self.st.heap, owner, f)
        return SV(z3.Select(arr, ref.t), TRef.registry[owner].fields[f])

    def heap_set(self, ref: SV, f, v):
        owner = ref.ty.field_owner(f)
        if owner is None:
            raise Unsupported(f"{ref.ty.name} has no declared field {f}")
        fty = TRef.registry[owner].fields[f]
        arr = self.heap_array(self.st.heap, owner, f)
        if hasattr(self, "coerce") and (not isinstance(v, SV) or (isinstance(v.ty, TOpt) and not isinstance(fty, TOpt))):
            v = self.coerce(v, fty)
        self.st.heap[f"{owner}.{f}"] = z3.Store(arr, ref.t, lift(v, fty).t)
        if self.written_fields is not None:
            self.written_fields.add(f"{owner}.{f}")

    def ghost_initial(self, name):
        if name not in self.ghost_decl:
            raise Unsupported(f"undeclared ghost global {name}")
        ty = self.ghost_decl[name]
        return SV(z3.Const(f"G0_{name}", ty.sort()), ty)

    def ghost_get(self, name):
        k = "G." + name
        if k not in self.st.heap:
            self.st.heap[k] = self.ghost_initial(name)
        return self.st.heap[k]

    def ghost_set(self, name, v):
        ty = self.ghost_decl[name]
        self.st.heap["G." + name] = lift(v, ty)
        if self.written_fields is not None:
            self.written_fields.add("G." + name)

    def allocate(self, ty: TRef) -> SV:
        r = SV(z3.Const(f"new_{ty.cls}!{len(self.st.pc)}_{self.pos}_{id(object()) % 100000}", z3.IntSort()), ty)
        self.st.pc.append(z3.Not(z3.IsMember(r.t, self.st.alloc)))
        self.st.alloc = z3.SetAdd(self.st.alloc, r.t)
        self.heap_set_dyn(r, ty.cls)
        return r

    # dynamic class of a reference (for method dispatch)
    def dyn_array(self):
        if "object.__class__" not in self.st.heap:
            self.st.heap["object.__class__"] = z3.Const("H0_object_class", z3.ArraySort(z3.IntSort(), z3.StringSort()))
        return self.st.heap["object.__class__"]

    def heap_set_dyn(self, ref, clsname):
        self.st.heap["object.__class__"] = z3.Store(self.dyn_array(), ref.t, z3.StringVal(clsname))

    def dyn_class_is(self, ref, clsname):
        return SV(z3.Select(self.dyn_array(), ref.t) == z3.StringVal(clsname), TBool)

    def view(self, heap=None, alloc=None):
        return HeapView(self.st.heap if heap is None else heap, self.st.alloc if alloc is None else alloc, self)

    # ---------------- frames ----------------
    def lookup_name(self, name, frames=None):
        frames = self.frames if frames is None else frames
        for fr in reversed(frames):
            if name in fr:
                return fr[name], True
        return None, False

    def set_name(self, name, v):
        # nonlocal/global declared names are rebound where they live
        fr = self.frames[-1]
        nl = fr.get("__nonlocal__", ())
        if name in nl:
            for f2 in reversed(self.frames[:-1]):
                if name in f2:
                    f2[name] = v
                    return
        fr[name] = v

    def rebind_existing(self, name, v):
        """mutation through a name: rebind in the frame that holds it"""
        for fr in reversed(self.frames):
            if name in fr:
                fr[name] = v
                return
        raise Unsupported(f"mutation of unknown name {name}")

    def snapshot(self):
        return (self.st.snapshot(), [(fr, dict(fr)) for fr in self._all_frames()])

    def _all_frames(self):
        seen = []
        ids = set()

        def add(fr):
            if id(fr) not in ids:
                ids.add(id(fr))
                seen.append(fr)
                for v in list(fr.values()):
                    if isinstance(v, Closure):
                        for f2 in v.frames:
                            add(f2)

        for fr in self.frames:
            add(fr)
        return seen

    def restore(self, snap):
        self.st.restore(snap[0])
        for fr, saved in snap[1]:
            fr.clear()
            fr.update(saved)
