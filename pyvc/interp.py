"""The verifier proper: explores every path of a function under contract and
collects the obligations."""
from __future__ import annotations

import ast
import time
import traceback

import z3

from .builtins_ import BuiltinMixin, CtxMgr, _EmptySet
from .calls import CallMixin
from .contracts import REG
from .engine import Closure, Ctx, EngineBase, FunctionResult, LocalGone, SDict
from .exprs import ExprMixin
from .source import ClassDef, FuncDef, Repo
from .state import (
    BreakEx,
    ContinueEx,
    MergeFail,
    PathEnd,
    RaiseEx,
    ReturnEx,
    State,
    exc_isa,
)
from .omap import OMapMixin, View
from .stmts import StmtMixin
from .types import SV, TBool, TInt, TOMap, TOpt, TRec, TRef, TSeq, TStr, Ty, Unsupported, lift, TReal, TBytes, TKey

EXTERN_HANDLERS: dict = {}


def extern(name):
    def deco(f):
        EXTERN_HANDLERS[name] = f
        return f

    return deco


@extern("ext:typing.cast")
def _typing_cast(engine, args, kwargs, node, self_expr):
    return args[1]


class Interp(StmtMixin, ExprMixin, CallMixin, BuiltinMixin, OMapMixin, EngineBase):
    merge_enabled = not bool(__import__('os').environ.get('PYVC_NOMERGE'))
    want_seq_comprehension = False
    comp_only_images = False  # the converse characterisation of interned comprehensions (prone to matching loops)

    def __init__(self, repo=None, registry=None, ghost_decl=None):
        super().__init__(repo, registry)
        self.ghost_decl = dict(ghost_decl or {})
        self.fn_stack = []
        self.frame_base = []
        self.frame_entry = []
        self.gen_stack = []
        self.loop_stack = []
        self.loop_ghosts = []
        self.loop_writes = {}
        self.discovery = False
        self.handling = []

    # ------------------------------------------------------------------
    def spec_fact(self, name, fact, defn=False):
        self.st.pc.append(fact)
        if not defn:
            self.res.assumed_used.add("spec:" + name)

    def _entry_contradictory(self):
        """vacuity guard over the FULL entry assumptions (quantified requires / entry_assume / background included):
        `unsat` means every obligation of this function would hold vacuously; sat/unknown are both fine"""
        from .types import BACKGROUND

        if getattr(self, "discovery", False) or getattr(self, "_entry_checked", None) == self.cur_fn:
            return False
        self._entry_checked = self.cur_fn  # once per function (paths are explored by replaying from the entry)
        sol = z3.Solver()
        sol.set("timeout", 3000)
        for a in BACKGROUND:
            sol.add(a)
        for p_ in self.st.pc:
            sol.add(p_)
        return sol.check() == z3.unsat

    def extern_handler(self, qual):
        return EXTERN_HANDLERS.get(qual)

    def truth(self, v):
        if isinstance(v, _EmptySet):
            return False
        if isinstance(v, SV) and isinstance(v.ty, TOMap):
            return v.length() > 0
        return super().truth(v)

    def branch(self, cond):
        if self.in_quant is not None and not isinstance(cond, bool):
            c = z3.simplify(cond.t)
            if not (z3.is_true(c) or z3.is_false(c)):
                raise Unsupported("control flow depends on the element inside a comprehension over a symbolic collection")
        return super().branch(cond)

    def contains(self, container, x):
        if isinstance(container, _EmptySet):
            return False
        return super().contains(container, x)

    def heap_get(self, ref, f):
        v = super().heap_get(ref, f)
        if isinstance(v.ty, TRef):
            self.st.pc.append(z3.IsMember(v.t, self.st.alloc))
        elif isinstance(v.ty, TOpt) and isinstance(v.ty.elem, TRef):
            self.st.pc.append(z3.Or(v.ty.is_none(v).t, z3.IsMember(v.ty.val(v).t, self.st.alloc)))
        return v

    # ------------------------------------------------------------------
    def verify(self, qualname) -> FunctionResult:
        res = FunctionResult(qualname)
        self.res = res
        t0 = time.time()
        from .contracts import HARNESSES

        for hm, hn, hs in HARNESSES:
            if f"{hm}:<harness>{hn}" not in self.repo.harnesses:
                self.repo.add_harness(hm, hn, hs)
        fdef = self.repo.lookup(qualname)
        con = self.reg.get(qualname)
        if not isinstance(fdef, FuncDef):
            res.undecided.append(f"function {qualname} not found in /repo (renamed or removed?)")
            return res
        if con is None:
            res.undecided.append(f"no contract for {qualname}")
            return res
        res.source = fdef.source_info()
        self.t_verify = time.time()
        self.gen_budget_s = float(__import__("os").environ.get("PYVC_GEN_BUDGET", "150"))
        self.cur_fn = fdef
        self.cur_contract = con
        self.obls = {}
        try:
            self.loop_writes = {}
            self.discovery = False
            self.saw_loop = False
            self._explore(fdef, con, res)
            if self.saw_loop:
                # a loop was met: discover what its body writes, then redo the real pass
                self.discovery = True
                self.obls = {}
                res.paths = 0
                self._explore(fdef, con, res)
                self.discovery = False
                self.obls = {}
                res.undecided.clear()
                res.paths = 0
                self._explore(fdef, con, res)
        except Unsupported as u:
            res.undecided.append(f"unsupported: {u}")
        except LocalGone as e:
            res.undecided.append(f"contract names local '{e}' which does not exist")
        except (TypeError, AttributeError, KeyError, IndexError, z3.Z3Exception) as e:
            # the translator met a construct / type combination it has no rule for: this function is UNDECIDED (exit 2), it is
            # neither a verdict about the code nor a reason to stop checking the other functions
            import traceback

            where = traceback.extract_tb(e.__traceback__)[-1]
            res.undecided.append(f"unsupported: translator has no rule here ({type(e).__name__}: {str(e)[:120]} at {where.filename.split('/')[-1]}:{where.lineno}; "
                                 f"source line {getattr(getattr(self, 'cur_node', None), 'lineno', '?')})")
        res.obligations = list(self.obls.values())
        res.gen_time = time.time() - t0
        return res

    def _explore(self, fdef, con, res):
        work = [[]]
        while work:
            prefix = work.pop()
            self.trail = list(prefix)
            self.merge_depth = 0
            self.pos = 0
            self.pending = []
            res.paths += 1
            if res.paths > self.max_paths:
                raise Unsupported(f"more than {self.max_paths} paths")
            if time.time() - self.t_verify > self.gen_budget_s:
                raise Unsupported(f"generation budget of {self.gen_budget_s}s exceeded after {res.paths} paths")
            try:
                self._run_path(fdef, con)
            except PathEnd:
                pass
            work.extend(self.pending)

    def _entry_frame(self, fdef, con):
        a = fdef.node.args
        names = [p.arg for p in a.posonlyargs + a.args + a.kwonlyargs]
        defaults = dict(zip([p.arg for p in (a.posonlyargs + a.args)][len(a.posonlyargs + a.args) - len(a.defaults) :], a.defaults))
        for k, d in zip(a.kwonlyargs, a.kw_defaults):
            if d is not None:
                defaults[k.arg] = d
        frame = {}
        for n in names:
            if n in con.params:
                t = con.params[n]
                if isinstance(t, Ty):
                    frame[n] = t.const("p_" + n)
                else:
                    frame[n] = t  # a concrete value fixed by the contract (recorded)
            elif n in defaults:
                frame[n] = ("__default__", defaults[n])
                self.res.drops.add(f"parameter '{n}' of {fdef.qualname} fixed to its default")
            else:
                raise Unsupported(f"parameter {n} of {fdef.qualname} has no declared sort")
        if a.vararg or a.kwarg:
            if a.kwarg:
                kw = con.params.get(a.kwarg.arg)
                if isinstance(kw, dict):
                    # declared keyword arguments: each is present with a symbolic value of the given sort
                    kw = SDict({k: (z3.BoolVal(True), t.const("p_kw_" + k)) for k, t in kw.items()})
                frame[a.kwarg.arg] = kw if isinstance(kw, SDict) else SDict()
            if a.vararg:
                frame[a.vararg.arg] = ()
        self._eval_defaults(frame, fdef.module, [{}])
        return frame

    def _run_path(self, fdef, con):
        self.st = State()
        self.frames = []
        self.module_stack = [fdef.module]
        self.class_stack = [fdef.cls]
        self.fn_stack = []
        self.frame_base = []
        self.frame_entry = []
        self.gen_stack = []
        self.loop_stack = []
        self.loop_ghosts = []
        self.call_depth = 0
        self.handling = []
        self._fid = 0
        frame = self._entry_frame(fdef, con)
        params = dict(frame)
        for v in params.values():
            if isinstance(v, SV) and isinstance(v.ty, TRef):
                self.st.pc.append(z3.IsMember(v.t, self.st.alloc))
            if isinstance(v, SV) and isinstance(v.ty, TOpt) and isinstance(v.ty.elem, TRef):
                self.st.pc.append(z3.Or(v.ty.is_none(v).t, z3.IsMember(v.ty.val(v).t, self.st.alloc)))
        h0 = self.view({}, self.st.alloc)
        # the entry heap dict is shared lazily: fields materialise as H0_* constants
        c0 = Ctx(self, params, h0, h0)
        if con.requires is not None:
            self.assume(lift(con.requires(c0), TBool))
        if con.entry_assume is not None:
            self.assume(lift(con.entry_assume(c0), TBool))
            for text in (con.assumes or ["(undocumented entry assumption)"]):
                self.res.assumed_used.add(f"assumed at entry of {con.qualname.split(':')[-1]}: {text}")
        for k, v in h0._heap.items():
            self.st.heap.setdefault(k, v)
        entry_alloc = self.st.alloc
        self.top_entry = {"params": params, "alloc": entry_alloc}
        if not self.oracle(self.feasible) or self._entry_contradictory():
            self.oblige("vacuity", False, fdef.node, "precondition is unsatisfiable")
            raise PathEnd()
        outcome, payload = None, None
        try:
            ret = self.run_body(fdef, fdef.node, frame, [], fdef.module, fdef.cls, fdef.node)
            outcome, payload = "ok", ret
        except RaiseEx as ex:
            outcome, payload = "raise", ex
        except (BreakEx, ContinueEx):
            raise Unsupported("break/continue outside loop")
        self._check_exit(fdef, con, params, entry_alloc, outcome, payload)

    def _entry_view(self, entry_alloc):
        # entry heap: every field's H0 constant
        heap0 = {}
        for k, v in self.st.heap.items():
            if k.startswith("G."):
                heap0[k] = self.ghost_initial(k[2:])
            elif k == "object.__class__":
                heap0[k] = z3.Const("H0_object_class", z3.ArraySort(z3.IntSort(), z3.StringSort()))
            else:
                cls, f = k.split(".")
                heap0[k] = z3.Const(f"H0_{cls}_{f}", v.sort())
        return self.view(heap0, entry_alloc)

    def _check_exit(self, fdef, con, params, entry_alloc, outcome, payload):
        h0 = self._entry_view(entry_alloc)
        node = getattr(payload, "node", None) or self.cur_node
        if outcome == "ok":
            result = payload
            if con.returns is not None and result is not None or (con.returns is not None and isinstance(con.returns, TOpt)):
                try:
                    result = self.coerce(result, con.returns)
                except Unsupported as u:
                    raise Unsupported(f"result of {fdef.qualname} does not fit declared sort {con.returns}: {u}")
            elif con.returns is not None and result is None:
                raise Unsupported(f"{fdef.qualname} returned None but contract declares {con.returns}")
            c = Ctx(self, params, h0, self.view(), result=result)
            if con.ensures is not None:
                self.oblige("post", lift(con.ensures(c), TBool), self.cur_node if isinstance(self.cur_node, ast.Return) else fdef.node)
            for name, lem in con.lemmas.items():
                self.oblige("lemma." + name, lift(lem(c), TBool), fdef.node)
        else:
            ex = payload
            allowed = None
            for name, (when, post) in con.raises.items():
                if exc_isa(ex.cls, name):
                    allowed = (name, when, post)
                    break
            if allowed is None:
                self.oblige("exc", False, ex.node or fdef.node, f"{ex.cls} escapes but the contract does not allow it")
            else:
                name, when, post = allowed
                c0 = Ctx(self, params, h0, h0)
                c1 = Ctx(self, params, h0, self.view(), exc=ex.cls)
                g = lift(True)
                if when is not None:
                    g = g & lift(when(c0), TBool)
                if post is not None:
                    g = g & lift(post(c1), TBool)
                self.oblige("exc", g, ex.node or fdef.node, f"{ex.cls} raised: allowed-when and exceptional postcondition")
        self._check_frame(fdef, con, params, h0, entry_alloc)

    def _check_frame(self, fdef, con, params, h0, entry_alloc):
        g = self._frame(con, params, h0, entry_alloc)
        if g is not None:
            self.oblige("frame", g, fdef.node, "nothing outside `modifies` changed")

    def frame_formula(self):
        """frame condition of the function under verification, in the current state (True if nothing to say)"""
        top = self.top_entry
        g = self._frame(self.cur_contract, top["params"], self._entry_view(top["alloc"]), top["alloc"])
        return SV(g, TBool) if g is not None else lift(True)

    def _frame(self, con, params, h0, entry_alloc):
        c0 = Ctx(self, params, h0, h0)
        items = con.modifies(c0) if con.modifies else []
        whole = {it[0] for it in items if len(it) == 1 or it[1] is None}
        single: dict = {}
        for it in items:
            if len(it) > 1 and it[1] is not None:
                single.setdefault(it[0], []).append(it[1])
        if "*" in whole:
            return None
        r = z3.Const("r!frame", z3.IntSort())
        goals = []
        for k, cur in self.st.heap.items():
            if k in whole or k == "object.__class__":
                continue
            old = h0._heap.get(k)
            if old is None:
                continue
            if k.startswith("G."):
                if cur.t.eq(old.t):
                    continue
                goals.append(cur.t == old.t)
                continue
            if cur.eq(old):
                continue
            excl = [r != x.t for x in single.get(k, [])]
            goals.append(z3.ForAll([r], z3.Implies(z3.And(z3.IsMember(r, entry_alloc), *excl), z3.Select(cur, r) == z3.Select(old, r))))
        return z3.And(*goals) if goals else None


# ----------------------------------------------------------------------
# record classes from the real source
# ----------------------------------------------------------------------
PRIM_ANN = {"int": TInt, "bool": TBool, "str": TStr, "float": TReal, "bytes": TBytes}


def parse_annotation(s: str, overrides=None):
    s = s.strip().strip('"').strip("'")
    if overrides and s in overrides:
        return overrides[s]
    if s in PRIM_ANN:
        return PRIM_ANN[s]
    if s.startswith("Optional[") and s.endswith("]"):
        return TOpt(parse_annotation(s[9:-1], overrides))
    if s in TRec.registry:
        return TRec.registry[s]
    if s in TRef.registry:
        return TRef.registry[s]
    raise Unsupported(f"annotation {s!r} needs an override")


def rec_from_source(repo: Repo, qualname, overrides=None, name=None, skip=()):
    """TRec generated from an attrs/NamedTuple class definition in the real source"""
    cdef = repo.lookup(qualname)
    if not isinstance(cdef, ClassDef):
        raise Unsupported(f"class {qualname} not found")
    fields, eq, defaults = {}, [], {}
    ctor = []
    for fname, ann, default in cdef.ann_fields:
        ctor.append(fname)
        if fname in skip:
            continue
        ann_s = ast.unparse(ann)
        ty = (overrides or {}).get(fname) or parse_annotation(ann_s, overrides)
        fields[fname] = ty
        is_eq = True
        if default is not None:
            if isinstance(default, ast.Call) and ast.unparse(default.func) in ("field", "attrs.field"):
                for kw in default.keywords:
                    if kw.arg == "eq" and isinstance(kw.value, ast.Constant) and kw.value.value is False:
                        is_eq = False
                    if kw.arg == "default":
                        defaults[fname] = ast.literal_eval(kw.value)
            else:
                try:
                    defaults[fname] = ast.literal_eval(default)
                except ValueError:
                    pass
        if is_eq:
            eq.append(fname)
    t = TRec(name or cdef.name, fields, eq, defaults, qualname=qualname)
    t.ctor_params = ctor
    t.skipped = set(skip)
    return t
