"""Statement execution (mixin)."""
from __future__ import annotations

import ast

import z3

from .engine import BoundMethod, ClassVal, Closure, Ctx, LocalGone, SDict
from .state import (
    BreakEx,
    ContinueEx,
    MergeFail,
    PathEnd,
    RaiseEx,
    ReturnEx,
    exc_isa,
)
from .types import (
    SV,
    TBool,
    TInt,
    TList,
    TMap,
    TOMap,
    TOpt,
    TRec,
    TRef,
    TSeq,
    TSet,
    TStr,
    TTuple,
    Ite,
    Unsupported,
    lift,
    unify,
)

LOG_NAMES = {"logger", "logging"}


def _simple_body(stmts):
    """no loops / try / with / nested defs: eligible for state merging"""
    for s in stmts:
        for n in ast.walk(s):
            if isinstance(n, (ast.For, ast.While, ast.Try, ast.With, ast.FunctionDef, ast.Yield, ast.YieldFrom, ast.Return, ast.Break, ast.Continue, ast.Raise)):
                return False
    return True


class StmtMixin:
    # ------------------------------------------------------------------
    def exec_block(self, stmts):
        for s in stmts:
            self.exec_stmt(s)

    def exec_stmt(self, s):
        m = getattr(self, "st_" + type(s).__name__, None)
        if m is None:
            raise Unsupported(f"statement {type(s).__name__} at L{s.lineno}")
        self.cur_node = s
        return m(s)

    def st_Pass(self, s):
        pass

    def st_Global(self, s):
        raise Unsupported("global statement")

    def st_Nonlocal(self, s):
        fr = self.frames[-1]
        fr["__nonlocal__"] = tuple(fr.get("__nonlocal__", ())) + tuple(s.names)

    def st_Expr(self, s):
        v = s.value
        if isinstance(v, ast.Constant):
            return  # docstring
        if isinstance(v, ast.Call):
            f = v.func
            root = f
            while isinstance(root, ast.Attribute):
                root = root.value
            if isinstance(root, ast.Name) and root.id in LOG_NAMES:
                self.res.drops.add("logger.* statements")
                return
        if isinstance(v, (ast.Yield, ast.YieldFrom)):
            self.eval(v)
            return
        self.eval(v)

    def st_Assign(self, s):
        v = self.eval(s.value)
        for t in s.targets:
            self.assign(t, v)

    def st_AnnAssign(self, s):
        if s.value is not None:
            self.assign(s.target, self.eval(s.value))

    def st_AugAssign(self, s):
        load = ast.copy_location(_as_load(s.target), s.target)
        cur = self.eval(load)
        rhs = self.eval(s.value)
        v = self.binop(type(s.op).__name__, cur, rhs, s, inplace=True)
        self.assign(s.target, v)

    def st_Return(self, s):
        raise ReturnEx(self.eval(s.value) if s.value is not None else None)

    def st_Break(self, s):
        raise BreakEx()

    def st_Continue(self, s):
        raise ContinueEx()

    def st_Delete(self, s):
        for t in s.targets:
            if isinstance(t, ast.Subscript):
                self.del_item(t)
            elif isinstance(t, ast.Name):
                self.frames[-1].pop(t.id, None)
            else:
                raise Unsupported("del of " + type(t).__name__)

    def st_Import(self, s):
        self._bind_imports(s)

    st_ImportFrom = st_Import

    def _bind_imports(self, s):
        self.res.drops.add("function-local import statements (resolved to the imported symbol)")
        mod = self.module_stack[-1]
        for k, d in mod.import_bindings(s).items():
            mod.defs.setdefault("__local_import__" + k, d)
            saved = mod.defs.get(k)
            mod.defs[k] = d
            try:
                r = self.repo.resolve(mod, k)
            finally:
                if saved is None:
                    mod.defs.pop(k, None)
                else:
                    mod.defs[k] = saved
            self.frames[-1][k] = self.wrap_def(r)

    def st_FunctionDef(self, s):
        self.frames[-1][s.name] = Closure(s, list(self.frames), self.module_stack[-1], s.name)

    def st_Assert(self, s):
        # `assert isinstance(x, T)` narrows; everything else is an obligation
        t = self.truth(self.eval(s.test))
        if isinstance(t, bool):
            if not t:
                self.oblige("assert", False, s)
                raise PathEnd()
            return
        self.oblige("assert", t, s)
        self.assume(t)

    def st_Raise(self, s):
        if s.exc is None:
            if getattr(self, "handling", None):
                raise self.handling[-1]
            raise Unsupported("bare raise outside handler")
        e = s.exc
        payload = None
        if isinstance(e, ast.Call):
            name = _exc_name(e.func)
            try:
                payload = [self.eval(a) for a in e.args]
            except Unsupported:
                # the message of an exception has no effect on verified state
                self.res.drops.add("exception message expressions that cannot be translated (formatting only)")
                payload = None
        else:
            v = None
            name = _exc_name(e)
            if isinstance(e, ast.Name):
                val, ok = self.lookup_name(e.id)
                if ok and isinstance(val, RaiseEx):
                    raise val
        raise RaiseEx(name, payload, s)

    # ------------------------------------------------------------------
    def st_If(self, s):
        cond = self.truth(self.eval(s.test))
        if isinstance(cond, bool):
            self.exec_block(s.body if cond else s.orelse)
            return
        c = z3.simplify(cond.t)
        if z3.is_true(c):
            return self.exec_block(s.body)
        if z3.is_false(c):
            return self.exec_block(s.orelse)
        # merging is attempted identically on replay, so that the decision trail stays aligned
        if self.merge_enabled and not getattr(self.cur_contract, 'no_merge', False) and _simple_body(s.body) and _simple_body(s.orelse):
            if self._merged_if(s, c):
                return
        if self.decide([c, z3.Not(c)]) == 0:
            self.exec_block(s.body)
        else:
            self.exec_block(s.orelse)

    def _merged_if(self, s, c):
        """execute both branches and merge the states; returns False if merging is not possible
        (the caller then forks).  Decisions taken inside the branches are recorded normally."""
        ft = self.oracle(lambda: self.feasible(c))
        ff = self.oracle(lambda: self.feasible(z3.Not(c)))
        if not (ft and ff):
            self.st.pc.append(c if ft else z3.Not(c))
            if not ft and not ff:
                raise PathEnd()
            self.exec_block(s.body if ft else s.orelse)
            return True
        # whether the merge succeeded is part of the path's identity: it is recorded at a reserved trail position BEFORE the
        # decisions taken inside the attempt, so that a replay neither re-attempts a merge that failed (its inner decisions would
        # consume trail entries that belong to later decision points) nor forks where the recorded path merged
        P = self.pos
        replaying = P < len(self.trail)
        if replaying:
            e = self.trail[P]
            if not (isinstance(e, tuple) and e[0] == "o" and e[1] in ("merged", "fork")):
                raise Unsupported("path replay diverged (merge outcome expected)")
            self.pos += 1
            if e[1] == "fork":
                return False
        else:
            self.trail = self.trail[:P] + [("o", None)]
            self.pos = P + 1
        snap = self.snapshot()
        trail_save, pos_save, pend_save = list(self.trail), self.pos, list(self.pending)
        n_pend = len(self.pending)
        base_len = len(self.st.pc)
        self.merge_depth = getattr(self, "merge_depth", 0) + 1
        try:
            self.st.pc.append(c)
            self.exec_block(s.body)
            then_state = self.snapshot()
            then_extra = self.st.pc[base_len + 1 :]
            self.restore(snap)
            self.st.pc.append(z3.Not(c))
            self.exec_block(s.orelse)
            else_state = self.snapshot()
            else_extra = self.st.pc[base_len + 1 :]
            merged = self._merge_states(c, snap, then_state, else_state)
        except (MergeFail, PathEnd, RaiseEx, ReturnEx, BreakEx, ContinueEx) as ex:
            # fall back to forking: rewind everything, including decisions taken inside
            self.merge_depth -= 1
            self.restore(snap)
            if replaying:
                raise Unsupported("path replay diverged (a merge that succeeded on the recorded path fails on replay)")
            self.trail, self.pos, self.pending = trail_save[:P] + [("o", "fork")], P + 1, pend_save
            return False
        self.merge_depth -= 1
        if not replaying:
            self.trail[P] = ("o", "merged")
            for q in self.pending[n_pend:]:
                if len(q) > P and q[P] == ("o", None):
                    q[P] = ("o", "merged")
        self.restore(merged)
        self.st.pc = self.st.pc[:base_len]
        for e in then_extra:
            self.st.pc.append(z3.Implies(c, e))
        for e in else_extra:
            self.st.pc.append(z3.Implies(z3.Not(c), e))
        return True

    def _merge_states(self, c, base, a, b):
        (apc, aheap, aalloc, ayield), aframes = a
        (bpc, bheap, balloc, byield), bframes = b
        heap = {}
        for k in set(aheap) | set(bheap):
            va, vb = aheap.get(k), bheap.get(k)
            if va is None or vb is None:
                # materialised on one side only: the other side still has the value from before the `if`
                # (or the entry-state constant if it had never been touched)
                prev = base[0][1].get(k)
                if prev is None:
                    self.st.heap = {}
                    self.materialise(k)
                    prev = self.st.heap[k]
                va = prev if va is None else va
                vb = prev if vb is None else vb
            if isinstance(va, SV):
                heap[k] = va if va.t.eq(vb.t) else Ite(SV(c, TBool), va, vb)
            else:
                heap[k] = va if va.eq(vb) else z3.If(c, va, vb)
        alloc = aalloc if aalloc.eq(balloc) else z3.If(c, aalloc, balloc)
        if (ayield is None) != (byield is None):
            raise MergeFail()
        yl = ayield
        if ayield is not None and not ayield.t.eq(byield.t):
            yl = Ite(SV(c, TBool), ayield, byield)
        frames = []
        for (fr, da), (fr2, db) in zip(aframes, bframes):
            assert fr is fr2
            out = {}
            for k in set(da) | set(db):
                if k in da and k in db:
                    out[k] = self.merge_values(c, da[k], db[k])
                # defined on one side only: dropped (use afterwards is unsupported)
            frames.append((fr, out))
        return ((base[0][0], heap, alloc, yl), frames)

    def merge_values(self, c, a, b):
        if a is b:
            return a
        if isinstance(a, SV) and isinstance(b, SV) and a.ty == b.ty and a.t.eq(b.t):
            return a
        if isinstance(a, (Closure, ClassVal, BoundMethod)) or isinstance(b, (Closure, ClassVal, BoundMethod)):
            if isinstance(a, ClassVal) and isinstance(b, ClassVal) and a.cdef is b.cdef:
                return a
            raise MergeFail()
        if isinstance(a, SDict) or isinstance(b, SDict):
            if not (isinstance(a, SDict) and isinstance(b, SDict)):
                raise MergeFail()
            out = {}
            for k in list(a.items) + [k for k in b.items if k not in a.items]:
                pa, va = a.items.get(k, (z3.BoolVal(False), None))
                pb, vb = b.items.get(k, (z3.BoolVal(False), None))
                if va is None:
                    va = vb
                if vb is None:
                    vb = va
                out[k] = (z3.simplify(z3.If(c, pa, pb)), self.merge_values(c, va, vb))
            return SDict(out)
        if isinstance(a, (tuple, list)) and isinstance(b, (tuple, list)):
            if type(a) is not type(b) or len(a) != len(b):
                raise MergeFail()
            return type(a)(self.merge_values(c, x, y) for x, y in zip(a, b))
        if not isinstance(a, SV) and not isinstance(b, SV):
            if a is None and b is None:
                return None
            if type(a) is type(b) and a == b:
                return a
        try:
            ua, ub = unify(a, b)
        except Unsupported:
            raise MergeFail() from None
        return SV(z3.If(c, ua.t, ub.t), ua.ty)

    # ------------------------------------------------------------------
    def st_Try(self, s):
        try:
            try:
                self.exec_block(s.body)
            except RaiseEx as ex:
                for h in s.handlers:
                    if self._handler_matches(h, ex):
                        if h.name:
                            self.frames[-1][h.name] = ex
                        self.handling = getattr(self, "handling", []) + [ex]
                        try:
                            self.exec_block(h.body)
                        finally:
                            self.handling = self.handling[:-1]
                        break
                else:
                    raise
            else:
                self.exec_block(s.orelse)
        except (RaiseEx, ReturnEx, BreakEx, ContinueEx):
            if s.finalbody:
                self.exec_block(s.finalbody)
            raise
        if s.finalbody:
            self.exec_block(s.finalbody)

    def _handler_matches(self, h, ex):
        if h.type is None:
            return True
        names = [h.type] if not isinstance(h.type, ast.Tuple) else h.type.elts
        for n in names:
            if exc_isa(ex.cls, _exc_name(n)):
                return True
        return False

    def st_With(self, s):
        if len(s.items) != 1:
            raise Unsupported("with: multiple items")
        it = s.items[0]
        cm = self.eval(it.context_expr)
        val = self.enter_context(cm, it.context_expr)
        if it.optional_vars is not None:
            self.assign(it.optional_vars, val)
        suppress = getattr(cm, "suppress", None) if not isinstance(cm, SV) else None
        try:
            self.exec_block(s.body)
        except RaiseEx as ex:
            if suppress and any(exc_isa(ex.cls, n) for n in suppress):
                return
            raise

    # ------------------------------------------------------------------
    def st_While(self, s):
        if s.orelse:
            raise Unsupported("while-else")
        self.run_loop(s, kind="while")

    def st_For(self, s):
        if s.orelse:
            raise Unsupported("for-else")
        it = self.eval(s.iter)
        it = self.iterable_view(it)
        from .omap import View

        if isinstance(it, SV) and isinstance(it.ty, TOMap):
            it = it.ty.keys(it)
        if isinstance(it, View):
            self.run_loop(s, kind="for", iterable=it)
            return
        if isinstance(it, (tuple, list)):
            for x in it:
                self.assign(s.target, x)
                try:
                    self.exec_block(s.body)
                except ContinueEx:
                    continue
                except BreakEx:
                    break
            return
        self.run_loop(s, kind="for", iterable=it)

    def run_loop(self, s, kind, iterable=None):
        fn = self.cur_fn
        ordinal = self.loop_ordinal(s)
        con = self.contract_for_frame()
        inv = con.invariants.get(ordinal) if con else None
        if inv is None:
            raise Unsupported(f"loop #{ordinal} at L{s.lineno} of {self.frame_fn().qualname} has no invariant")
        ghosts = {}
        from .omap import View

        if kind == "for" and isinstance(iterable, View):
            ghosts["view"] = iterable
            ghosts["seq"] = None
            ghosts["idx"] = lift(0)
        elif kind == "for":
            if isinstance(iterable.ty, (TSeq, TList)) or iterable.ty == TStr:
                ghosts["seq"] = iterable
                ghosts["idx"] = lift(0)
                ghosts["pview"] = View(iterable.length(), lambda i, s_=iterable: s_[i], "plain")
            elif isinstance(iterable.ty, TSet):
                ghosts["seq"] = iterable
                ghosts["visited"] = iterable.ty.empty()
            elif isinstance(iterable.ty, TMap):
                ghosts["map"] = iterable
                ghosts["seq"] = iterable.ty.dom(iterable)
                ghosts["visited"] = ghosts["seq"].ty.empty()
            else:
                raise Unsupported(f"for over {iterable.ty}")

        def inv_formula():
            c = self.make_ctx(con)
            c.loc = type(c.loc)(self.visible_locals())
            c.idx = ghosts.get("idx")
            c.seq = ghosts.get("seq")
            c.view = ghosts.get("view") or ghosts.get("pview")
            c.outer = list(self.loop_ghosts)  # ghosts of the enclosing loops, innermost last
            c.visited = ghosts.get("visited")
            try:
                r = inv(c)
            except LocalGone as e:
                raise Unsupported(f"invariant of loop #{ordinal} names local '{e}' which does not exist") from None
            # the enclosing function's frame condition is an implicit part of every loop invariant
            return lift(r, TBool) & self.frame_formula()

        self.oblige(f"inv{ordinal}.init", inv_formula(), s)
        # havoc everything the body may assign
        assigned, mutated = _assigned_names(s.body, s.target if kind == "for" else None)
        for n in assigned + [m for m in mutated if m not in assigned]:
            v, ok = self.lookup_name(n)
            if not ok:
                continue
            if n not in assigned and _is_reference(v):
                continue  # a method call on a heap object does not rebind the name (its fields live in the heap)
            self.rebind_existing(n, self.havoc_value(v, n))
        pre_heap = dict(self.st.heap)
        written = self.body_written_fields(s)
        for k in written:
            cur = self.st.heap.get(k)
            if cur is None:
                continue
            if isinstance(cur, SV):
                self.st.heap[k] = cur.ty.fresh("hv_" + k.replace(".", "_"))
            else:
                self.st.heap[k] = z3.Const(f"hv_{k.replace('.', '_')}!{self.fresh_id()}", cur.sort())
        if "idx" in ghosts:
            ghosts["idx"] = TInt.fresh("i")
            self.assume(ghosts["idx"] >= 0)
            self.assume(ghosts["idx"] <= (ghosts["view"].n if "view" in ghosts else ghosts["seq"].length()))
        if "visited" in ghosts:
            ghosts["visited"] = ghosts["seq"].ty.fresh("visited")
            self.assume(ghosts["visited"].subset(ghosts["seq"]))
        if self.st.yielded is not None:
            self.st.yielded = self.st.yielded.ty.fresh("yielded")
        self.assume(inv_formula())
        # loop condition
        if kind == "while":
            cond = self.truth(self.eval(s.test))
            enter = self.branch(cond)
        elif "idx" in ghosts:
            enter = self.branch(ghosts["idx"] < (ghosts["view"].n if "view" in ghosts else ghosts["seq"].length()))
        else:
            enter = self.branch(~(ghosts["visited"] == ghosts["seq"]))
        if not enter:
            self.loop_exit_ghosts = ghosts
            return
        if kind == "for":
            if "view" in ghosts:
                x = ghosts["view"].elem(ghosts["idx"])
                nxt = dict(ghosts, idx=ghosts["idx"] + 1)
            elif "idx" in ghosts:
                x = ghosts["seq"][ghosts["idx"]]
                ghosts["cur"] = x
                nxt = dict(ghosts, idx=ghosts["idx"] + 1)
            else:
                x = ghosts["seq"].ty.elem.fresh("x")
                self.assume(ghosts["seq"].contains(x))
                self.assume(~ghosts["visited"].contains(x))
                nxt = dict(ghosts, visited=ghosts["visited"].add(x))
            self.assign(s.target, x)
        else:
            nxt = ghosts
        lkey = (self.frame_fn().qualname, ordinal)
        self.loop_stack.append(lkey)
        self.loop_ghosts.append(ghosts)
        try:
            self.exec_block(s.body)
        except ContinueEx:
            pass
        except BreakEx:
            return
        finally:
            self.loop_stack.pop()
            self.loop_ghosts.pop()
        ghosts.update(nxt)
        self.oblige(f"inv{ordinal}.pres", inv_formula(), s)
        raise PathEnd()

    def loop_ordinal(self, s):
        fnode = self.frame_fn().node
        loops = [n for n in ast.walk(fnode) if isinstance(n, (ast.For, ast.While))]
        loops.sort(key=lambda n: (n.lineno, n.col_offset))
        return loops.index(s)

    def havoc_value(self, v, name):
        if isinstance(v, SV):
            return v.ty.fresh(name)
        if isinstance(v, (bool, int, str, bytes, float)):
            return lift(v).ty.fresh(name)
        decl = self.declared_local_type(name)
        if decl is not None:
            return decl.fresh(name)
        if v is None or isinstance(v, (SDict, tuple, list)):
            raise Unsupported(f"loop-assigned local '{name}' needs a declared sort (contract.locals)")
        return v

    def body_written_fields(self, s):
        """heap fields / ghost globals that the loop body may write.  In the
        discovery pass every materialised or declared field is havocked and the
        writes actually performed in the body are recorded; the real pass
        havocs exactly the recorded set (sound: the discovery pass explores a
        superset of the paths)."""
        key = (self.frame_fn().qualname, self.loop_ordinal(s))
        self.saw_loop = True
        if self.discovery:
            self.materialise_all()
            return list(self.st.heap.keys())
        for k in self.loop_writes.get(key, ()):
            self.materialise(k)
        return [k for k in self.loop_writes.get(key, ()) if k in self.st.heap]


def _as_load(t):
    t2 = ast.parse(ast.unparse(t), mode="eval").body
    return t2


def _exc_name(n):
    if isinstance(n, ast.Name):
        return n.id
    if isinstance(n, ast.Attribute):
        return n.attr
    if isinstance(n, ast.Call):
        return _exc_name(n.func)
    raise Unsupported("exception expression " + ast.unparse(n))


MUTATORS = {"append", "appendleft", "add", "update", "extend", "pop", "popleft", "remove", "discard", "clear", "difference_update", "intersection_update", "sort", "setdefault", "insert"}


def _is_reference(v):
    if isinstance(v, SV):
        t = v.ty.elem if isinstance(v.ty, TOpt) else v.ty
        return isinstance(t, TRef)
    return False


def _assigned_names(body, target=None):
    out = []
    mut = []

    def add(n, m=False):
        lst = mut if m else out
        if n not in lst:
            lst.append(n)

    def root(e):
        while isinstance(e, (ast.Attribute, ast.Subscript)):
            e = e.value
        return e.id if isinstance(e, ast.Name) else None

    nodes = list(body)
    if target is not None:
        nodes = [target] + nodes
    for st in nodes:
        for n in ast.walk(st):
            if isinstance(n, ast.Name) and isinstance(n.ctx, (ast.Store, ast.Del)):
                add(n.id)
            elif isinstance(n, (ast.Attribute, ast.Subscript)) and isinstance(n.ctx, (ast.Store, ast.Del)):
                r = root(n)
                if r:
                    add(r, True)
            elif isinstance(n, ast.Call) and isinstance(n.func, ast.Attribute) and n.func.attr in MUTATORS:
                r = root(n.func.value)
                if r:
                    add(r, True)
            elif isinstance(n, ast.NamedExpr):
                add(n.target.id)
    return out, mut
