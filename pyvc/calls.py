"""Calls: inlining, contracts, attribute access, object construction (mixin)."""
from __future__ import annotations

import ast

import z3

from .engine import BoundMethod, ClassVal, Closure, Ctx, PairList, SDict
from .source import ClassDef, Extern, FuncDef, ModuleRef
from .state import PathEnd, RaiseEx, ReturnEx
from .types import (
    SV,
    Ty,
    TBool,
    TInt,
    TList,
    TMap,
    TOMap,
    TOpt,
    TRec,
    TRef,
    TSeq,
    TSet,
    TStr,
    TTuple,
    Unsupported,
    lift,
)

MAX_DEPTH = 12
TRANSPARENT_CLASSES = {"dvc_data.hashfile._progress:QueryingProgress"}
CALLBACK_CLASSES = {"dvc_data.hashfile.hash:LargeFileHashingCallback", "dvc_data.callbacks:TqdmCallback"}


class CtxMgrNone:
    """progress object used only as a context manager / callback holder"""

    suppress = None

# platform constants (POSIX; the Windows branches are not taken -- stated assumption)
EXTERN_CONSTS = {"os.name": "posix", "os.sep": "/", "posixpath.sep": "/", "os.path.sep": "/", "errno.ENOENT": 2, "stat.S_IWRITE": 128, "stat.S_IREAD": 256, "stat.S_IEXEC": 64, "stat.S_IWUSR": 128, "stat.S_IXUSR": 64}
# documented constants of the string module (values fixed by the language reference)
import string as _string  # noqa: E402

EXTERN_CONSTS.update({"string." + n: getattr(_string, n) for n in ("printable", "ascii_letters", "ascii_lowercase", "ascii_uppercase", "digits", "hexdigits", "octdigits", "punctuation", "whitespace")})


EXTERN_SYMBOLIC: dict = {}  # dotted name -> Ty, filled in below (needs the type constructors)


class ExternMethod:
    def __init__(self, selfv, name, self_expr=None):
        self.selfv = selfv
        self.name = name
        self.self_expr = self_expr


class BuiltinMethod:
    def __init__(self, selfv, name, self_expr=None):
        self.selfv = selfv
        self.name = name
        self.self_expr = self_expr


class SuperProxy:
    def __init__(self, selfv, after_cls):
        self.selfv = selfv
        self.after = after_cls


EXC_ATTRS: dict = {}  # (exception class, attribute) -> Ty, declared by contract modules


class StarSeq:
    """a symbolic sequence spread with * at a call site (accepted by extern handlers only)"""

    def __init__(self, sv):
        self.sv = sv


class CallMixin:
    # ------------------------------------------------------------------
    def frame_fn(self):
        return self.fn_stack[-1]

    def contract_for_frame(self):
        f = self.frame_fn()
        return self.reg.get(f.qualname) if isinstance(f, FuncDef) else None

    def declared_local_type(self, name):
        con = self.contract_for_frame()
        if con and name in con.locals:
            return con.locals[name]
        return None

    def visible_locals(self):
        out = {}
        for fr in self.frames[self.frame_base[-1] :]:
            out.update(fr)
        return out

    def make_ctx(self, con, result=None, exc=None):
        fr = self.frame_entry[-1]
        return Ctx(self, fr["params"], self.view(fr["heap"], fr["alloc"]), self.view(), result=result, exc=exc)

    def materialise(self, key):
        if key in self.st.heap or "." not in key:
            return
        if key.startswith("G."):
            self.ghost_get(key[2:])
        elif key == "object.__class__":
            self.dyn_array()
        else:
            cls, f = key.split(".")
            self.heap_array(self.st.heap, cls, f)

    def materialise_all(self):
        for cls, ty in TRef.registry.items():
            for f in ty.fields:
                self.heap_array(self.st.heap, cls, f)
        for g in self.ghost_decl:
            self.ghost_get(g)
        self.dyn_array()

    def fresh_id(self):
        self._fid = getattr(self, "_fid", 0) + 1
        return self._fid

    def note_write(self, key):
        if self.discovery:
            for lk in self.loop_stack:
                self.loop_writes.setdefault(lk, set()).add(key)

    # ------------------------------------------------------------------
    def find_method_for_type(self, ty, name):
        """(FuncDef, ClassDef) of method `name` for a record/ref type, from the real source"""
        qn = getattr(ty, "qualname", None)
        if not qn:
            return None
        cdef = self.repo.lookup(qn)
        if not isinstance(cdef, ClassDef):
            return None
        m = self.repo.find_method(cdef, name)
        if isinstance(m, FuncDef):
            return m, cdef
        return None

    def get_attr(self, obj, name, node, obj_expr=None):
        if isinstance(obj, SV):
            ty = obj.ty
            if isinstance(ty, TOpt):
                self.oblige("attr", ty.is_some(obj), node, f"attribute .{name} of None")
                self.assume(ty.is_some(obj))
                return self.get_attr(ty.val(obj), name, node, obj_expr)
            if isinstance(ty, TRec):
                if getattr(ty, "dictlike", False):
                    return BuiltinMethod(obj, name, obj_expr)
                if name in ty.fields:
                    return ty.get(obj, name)
                return self.class_attr(ty, obj, name, node, obj_expr)
            if isinstance(ty, TRef):
                if ty.field_owner(name):
                    return self.heap_get(obj, name)
                return self.class_attr(ty, obj, name, node, obj_expr)
            return BuiltinMethod(obj, name, obj_expr)
        if isinstance(obj, ClassVal):
            c = self.repo.find_class_const(obj.cdef, name)
            if c is not None:
                return self.wrap_def(c)
            if name == "fields" and isinstance(obj.ty, TRec) and any("define" in d for d in obj.cdef.decorators):
                # `Cls.fields = list(fields_dict(Cls))`: the attrs field names, read from the real class definition
                return list(getattr(obj.ty, "ctor_params", obj.ty.fields))
            m = self.repo.find_method(obj.cdef, name)
            if isinstance(m, FuncDef):
                if m.is_classmethod:
                    return BoundMethod(obj, m, None, obj.cdef)
                return m
            raise Unsupported(f"class attribute {obj.cdef.name}.{name}")
        if isinstance(obj, ModuleRef):
            m = self.repo.module(obj.name)
            r = self.repo.resolve(m, name)
            if r is None:
                sub = self.repo.module(obj.name + "." + name)
                if sub:
                    return ModuleRef(sub.name)
                raise Unsupported(f"{obj.name}.{name}")
            return self.wrap_def(r)
        if isinstance(obj, Extern):
            dotted = obj.dotted + "." + name
            if dotted in EXTERN_SYMBOLIC:
                # a constant of an external module whose value is not modelled: one uninterpreted constant of the declared sort
                ty = EXTERN_SYMBOLIC[dotted]
                self.res.assumed_used.add(f"const {dotted}: uninterpreted {ty.name}")
                return SV(z3.Const("ext_" + dotted.replace(".", "_"), ty.sort()), ty)
            if dotted in EXTERN_CONSTS:
                self.res.assumed_used.add(f"const {dotted} = {EXTERN_CONSTS[dotted]!r}")
                return EXTERN_CONSTS[dotted]
            return Extern(dotted)
        if isinstance(obj, SuperProxy):
            selfv = obj.selfv
            cdef = self.repo.lookup(selfv.ty.qualname) if isinstance(selfv, SV) else selfv.cdef
            m = self.repo.find_method(self.class_stack[-1], name, after=None) if False else None
            m = self.repo.find_method(self.class_stack[-1], name, after=self.class_stack[-1])
            if isinstance(m, FuncDef):
                return BoundMethod(selfv, m, None, m.cls)
            if isinstance(m, Extern):
                return ExternMethod(selfv, m.dotted)
            raise Unsupported(f"super().{name}")
        if isinstance(obj, RaiseEx):
            if name == "args":
                return tuple(obj.payload or ())
            ty = EXC_ATTRS.get((obj.cls, name))
            if ty is not None:
                # raised by a contract: the attribute is an unconstrained value of its declared sort
                return ty.fresh(f"{obj.cls}_{name}")
            raise Unsupported(f"exception attribute {name}")
        if isinstance(obj, (SDict, PairList, tuple, list, str, bytes, int)) or type(obj).__name__ == "_EmptySet":
            return BuiltinMethod(obj, name, obj_expr)
        raise Unsupported(f"attribute {name} of {obj!r}")

    def class_attr(self, ty, obj, name, node, obj_expr):
        cdef = self.repo.lookup(ty.qualname) if getattr(ty, "qualname", None) else None
        if isinstance(cdef, ClassDef):
            if isinstance(ty, TRef):
                cdef = self.dynamic_class(obj, cdef, name)
            c = self.repo.find_class_const(cdef, name)
            if c is not None:
                return self.wrap_def(c)
            m = self.repo.find_method(cdef, name)
            if isinstance(m, FuncDef):
                if m.is_property:
                    return self.call_function(m, [obj], {}, node, cls=cdef, self_expr=obj_expr)
                if m.is_staticmethod:
                    return m
                if m.is_classmethod:
                    return BoundMethod(ClassVal(cdef, ty), m, None, cdef)
                return BoundMethod(obj, m, obj_expr, cdef)
            if isinstance(m, Extern):
                return ExternMethod(obj, m.dotted, obj_expr)
            c = self.repo.find_class_const(cdef, name)
            if c is not None:
                return self.wrap_def(c)
        # external class (no source): method by declared class name
        return ExternMethod(obj, f"{ty.cls if isinstance(ty, TRef) else ty.name}.{name}", obj_expr)

    def dynamic_class(self, obj, cdef, name):
        """pick the dynamic class among declared subclasses that override `name` (forks)"""
        subs = [t for t in TRef.registry.values() if t.cls != obj.ty.cls and t.isa(obj.ty.cls) and t.qualname]
        cands = []
        for t in subs:
            sc = self.repo.lookup(t.qualname)
            if isinstance(sc, ClassDef) and self.repo.find_method(sc, name) is not self.repo.find_method(cdef, name):
                cands.append((t, sc))
        if not cands:
            return cdef
        alts = [self.dyn_class_is(obj, t.cls).t for t, _ in cands]
        base_m = self.repo.find_method(cdef, name)
        if isinstance(base_m, FuncDef) and any("abstractmethod" in d for d in base_m.decorators):
            # abstract in the declared class: the object is an instance of one of the concrete subclasses
            self.res.assumed_used.add(f"instances of abstract {cdef.name} are of a declared concrete subclass")
            self.st.pc.append(z3.Or(*alts))
        else:
            alts.append(z3.Not(z3.Or(*alts)))
        i = self.decide(alts)
        return cands[i][1] if i < len(cands) else cdef

    def set_attr(self, obj, name, v, node):
        if isinstance(obj, SV) and isinstance(obj.ty, TOpt):
            self.oblige("attr", obj.ty.is_some(obj), node)
            self.assume(obj.ty.is_some(obj))
            inner = obj.ty.val(obj)
            if isinstance(inner.ty, TRef):
                return self.set_attr(inner, name, v, node)
            new = inner.ty.update(inner, name, v)
            self.assign(node.value, obj.ty.some(new))
            return
        if isinstance(obj, SV) and isinstance(obj.ty, TRef):
            self.heap_set(obj, name, v)
            self.note_write(f"{obj.ty.field_owner(name)}.{name}")
            return
        if isinstance(obj, SV) and isinstance(obj.ty, TRec):
            if name not in obj.ty.fields:
                raise Unsupported(f"{obj.ty.name} has no field {name}")
            self.assign(node.value, obj.ty.update(obj, name, v))
            return
        raise Unsupported(f"attribute store on {obj!r}")

    # ------------------------------------------------------------------
    def ev_Call(self, e):
        # super()
        if isinstance(e.func, ast.Name) and e.func.id == "super" and not e.args:
            selfv, _ = self.lookup_name("self")
            if selfv is None:
                selfv, _ = self.lookup_name("cls")
            return SuperProxy(selfv, self.class_stack[-1])
        if isinstance(e.func, ast.Name) and e.func.id == "cast" and len(e.args) == 2:
            return self.eval(e.args[1])  # typing.cast: the type expression is an annotation (dropped)
        f = self.eval(e.func)
        args = []
        for a in e.args:
            if isinstance(a, ast.Starred):
                v = self.iterable_view(self.eval(a.value))
                if not isinstance(v, (tuple, list)):
                    sv = self.eval(a.value)
                    if isinstance(sv, SV) and isinstance(f, ExternMethod):
                        args.append(StarSeq(sv))  # only extern handlers that declare it accept a symbolic *seq
                        continue
                    raise Unsupported("*args with symbolic sequence")
                args.extend(v)
            else:
                args.append(self.eval(a))
        kwargs = {}
        for k in e.keywords:
            if k.arg is None:
                d = self.eval(k.value)
                if not isinstance(d, SDict):
                    raise Unsupported("**kwargs of non-constant dict")
                for kk, (p, vv) in d.items.items():
                    ps = z3.simplify(p)
                    if z3.is_false(ps):
                        continue
                    if not z3.is_true(ps):
                        if isinstance(f, ClassVal) and isinstance(f.ty, TRec):
                            kwargs[kk] = ("__cond__", ps, vv)  # resolved against the field default by construct()
                            continue
                        raise Unsupported("**kwargs with conditionally present key")
                    kwargs[kk] = vv
            else:
                kwargs[k.arg] = self.eval(k.value)
        return self.call_value(f, args, kwargs, e)

    def call_value(self, f, args, kwargs, node):
        if any(isinstance(a, StarSeq) for a in args) and not (isinstance(f, ExternMethod) and self.extern_handler("ext:" + f.name)):
            raise Unsupported("*args with symbolic sequence")
        if isinstance(f, FuncDef):
            return self.call_function(f, args, kwargs, node)
        if isinstance(f, BoundMethod):
            return self.call_function(f.fdef, [f.selfv] + args, kwargs, node, cls=f.cls, self_expr=f.self_expr)
        if isinstance(f, Closure):
            return self.call_closure(f, args, kwargs, node)
        if isinstance(f, ClassVal):
            return self.construct(f, args, kwargs, node)
        if isinstance(f, BuiltinMethod):
            return self.builtin_method(f.selfv, f.name, args, kwargs, node, f.self_expr)
        if isinstance(f, ExternMethod):
            return self.call_extern("ext:" + f.name, [f.selfv] + args, kwargs, node, f.self_expr)
        if isinstance(f, Extern):
            return self.call_extern("ext:" + f.dotted, args, kwargs, node, None)
        if callable(f) and getattr(f, "_pyvc_builtin", False):
            return f(self, args, kwargs, node)
        if type(f).__name__ == "DynAttr":
            return self.call_extern(f"ext:{f.obj.ty.cls}.<dynamic>", [f.obj, f.name] + args, kwargs, node, None)
        if isinstance(f, SV) and hasattr(f.ty, "arg"):
            if len(args) != 1 or kwargs:
                raise Unsupported("symbolic function arity")
            return f[lift(args[0], f.ty.arg)]
        if isinstance(f, SV) and isinstance(f.ty, TRef):
            m = self.find_method_for_type(f.ty, "__call__")
            if m:
                return self.call_function(m[0], [f] + args, kwargs, node, cls=m[1])
            return self.call_extern(f"ext:{f.ty.cls}.__call__", [f] + args, kwargs, node, None)
        if isinstance(f, SV) and isinstance(f.ty, TOpt):
            self.oblige("attr", f.ty.is_some(f), node, "call of None")
            self.assume(f.ty.is_some(f))
            return self.call_value(f.ty.val(f), args, kwargs, node)
        raise Unsupported(f"call of {f!r} at L{node.lineno}")

    def bind_args(self, fnode, args, kwargs, node):
        a = fnode.args
        params = [p.arg for p in a.posonlyargs + a.args]
        frame = {}
        if len(args) > len(params) and not a.vararg:
            raise Unsupported(f"too many positional args at L{getattr(node, 'lineno', '?')}")
        for p, v in zip(params, args):
            frame[p] = v
        if a.vararg:
            frame[a.vararg.arg] = tuple(args[len(params) :])
        kw = dict(kwargs)
        for p in params[len(args) :] + [k.arg for k in a.kwonlyargs]:
            if p in kw:
                frame[p] = kw.pop(p)
        # defaults
        defaults = dict(zip(params[len(params) - len(a.defaults) :], a.defaults))
        for k, d in zip(a.kwonlyargs, a.kw_defaults):
            if d is not None:
                defaults[k.arg] = d
        for p in params + [k.arg for k in a.kwonlyargs]:
            if p not in frame:
                if p in defaults:
                    frame[p] = ("__default__", defaults[p])
                else:
                    raise Unsupported(f"missing argument {p} at L{getattr(node, 'lineno', '?')}")
        if a.kwarg:
            frame[a.kwarg.arg] = SDict({k: (z3.BoolVal(True), v) for k, v in kw.items()})
        elif kw:
            raise Unsupported(f"unexpected keyword(s) {list(kw)}")
        return frame

    def _eval_defaults(self, frame, module, frames):
        for k, v in list(frame.items()):
            if isinstance(v, tuple) and len(v) == 2 and v[0] == "__default__":
                self.module_stack.append(module)
                saved = self.frames
                self.frames = frames
                try:
                    frame[k] = self.eval(v[1])
                finally:
                    self.frames = saved
                    self.module_stack.pop()

    def call_function(self, fdef: FuncDef, args, kwargs, node, cls=None, self_expr=None):
        con = self.reg.get(fdef.qualname)
        inline = getattr(getattr(self, "cur_contract", None), "inline", ()) or ()
        if con is not None and con.modular and fdef.qualname not in inline and not (self.cur_fn is fdef and len(self.fn_stack) == 0):
            return self.apply_contract(con, fdef, args, kwargs, node, self_expr)
        if self.call_depth > MAX_DEPTH:
            raise Unsupported("inlining depth exceeded at " + fdef.qualname)
        if fdef.is_generator and con is None:
            pass  # inlined generator: ghost output sequence, needs element type from first yield
        self.res.inlined.add(fdef.qualname)
        frame = self.bind_args(fdef.node, args, kwargs, node)
        self._eval_defaults(frame, fdef.module, [{}])
        return self.run_body(fdef, fdef.node, frame, [], fdef.module, fdef.cls or cls, node)

    def call_closure(self, c: Closure, args, kwargs, node):
        frame = self.bind_args(c.node, args, kwargs, node)
        self._eval_defaults(frame, c.module, c.frames)
        if isinstance(c.node, ast.Lambda):
            saved = self.frames
            self.frames = list(c.frames) + [frame]
            self.module_stack.append(c.module)
            try:
                return self.eval(c.node.body)
            finally:
                self.frames = saved
                self.module_stack.pop()
        return self.run_body(c, c.node, frame, c.frames, c.module, self.class_stack[-1] if self.class_stack else None, node)

    def run_body(self, fobj, fnode, frame, outer_frames, module, cls, node):
        saved_frames = self.frames
        self.frames = list(outer_frames) + [frame]
        self.module_stack.append(module)
        self.class_stack.append(cls)
        self.fn_stack.append(fobj)
        self.frame_base.append(len(outer_frames))
        self.frame_entry.append({"params": dict(frame), "heap": dict(self.st.heap), "alloc": self.st.alloc})
        self.call_depth += 1
        is_gen = isinstance(fobj, FuncDef) and fobj.is_generator
        saved_yield = self.st.yielded
        if is_gen:
            self.st.yielded = None
            self.gen_stack.append(fobj)
        try:
            try:
                self.exec_block(fnode.body)
                ret = None
            except ReturnEx as r:
                ret = r.value
            if is_gen:
                out = self.st.yielded
                if out is None:
                    out = ()
                return out
            return ret
        finally:
            if is_gen:
                self.st.yielded = saved_yield
                self.gen_stack.pop()
            self.call_depth -= 1
            self.frame_entry.pop()
            self.frame_base.pop()
            self.fn_stack.pop()
            self.class_stack.pop()
            self.module_stack.pop()
            self.frames = saved_frames

    # ---------------- yield ----------------
    def ev_Yield(self, e):
        v = self.eval(e.value) if e.value is not None else None
        self.do_yield(v)
        return None

    def ev_YieldFrom(self, e):
        v = self.iterable_view(self.eval(e.value))
        if isinstance(v, (tuple, list)):
            for x in v:
                self.do_yield(x)
            return None
        if isinstance(v, SV) and isinstance(v.ty, TSeq):
            if self.st.yielded is None:
                self.st.yielded = v
            elif isinstance(self.st.yielded, SV):
                self.st.yielded = self.st.yielded + v
            else:
                self.st.yielded = lift(tuple(self.st.yielded), v.ty) + v
            return None
        raise Unsupported(f"yield from {v!r}")

    def do_yield(self, v):
        y = self.st.yielded
        con = self.contract_for_frame()
        ety = con.yields if con and con.yields else None
        if y is None:
            if ety is not None:
                y = SV(z3.Empty(TSeq(ety).sort()), TSeq(ety))
            else:
                self.st.yielded = (v,)
                return
        if isinstance(y, tuple):
            self.st.yielded = y + (v,)
            return
        vv = lift(v, y.ty.elem) if not isinstance(v, (tuple, list)) else self.lift_like(v, y.ty.elem)
        self.st.yielded = SV(z3.Concat(y.t, z3.Unit(vv.t)), y.ty)

    # ---------------- object construction ----------------
    def construct(self, cv: ClassVal, args, kwargs, node):
        ty = cv.ty
        cdef = cv.cdef
        if cdef.qualname in TRANSPARENT_CLASSES:
            self.res.drops.add(f"{cdef.name}(it, ...) treated as the identity on the wrapped iterable (progress plumbing)")
            return args[0] if args else CtxMgrNone()
        if cdef.qualname in CALLBACK_CLASSES:
            from .builtins_ import CtxMgr

            self.res.drops.add(f"{cdef.name}(...) treated as an opaque progress callback (no effect on verified state)")
            cb = TRef.registry.get("Callback")
            return CtxMgr(value=cb.fresh("cb") if cb else None)
        if ty is None:
            if any("Exception" in b or "Error" in b for b in cdef.bases):
                raise Unsupported("exception object used as a value")
            raise Unsupported(f"construction of undeclared class {cdef.name}")
        if isinstance(ty, TRec):
            names = list(ty.fields)
            ctor = getattr(ty, "ctor_params", names)
            if len(args) > len(ctor):
                raise Unsupported("too many constructor args")
            kw = dict(zip(ctor, args))
            kw.update(kwargs)
            vals = {}
            for n in names:
                if n in kw:
                    v = kw[n]
                    if isinstance(v, tuple) and len(v) == 3 and v[0] == "__cond__":
                        if n not in ty.defaults:
                            raise Unsupported(f"conditional keyword {n} without a default")
                        dv = lift(ty.defaults[n], ty.fields[n])
                        vv = self.coerce(v[2], ty.fields[n])
                        vals[n] = SV(z3.If(v[1], vv.t, dv.t), ty.fields[n])
                        continue
                    if isinstance(v, SV) and v.ty == ty.fields[n]:
                        vals[n] = v
                    elif isinstance(v, (tuple, list)) and not isinstance(ty.fields[n], (TSet, TList)):
                        vals[n] = self.lift_like(v, ty.fields[n])
                    else:
                        vals[n] = self.coerce(v, ty.fields[n])
            for n in kw:
                if n not in names and n not in getattr(ty, "skipped", ()):
                    raise Unsupported(f"{ty.name}() unexpected field {n}")
            return ty.mk(**vals)
        # heap object
        ref = self.allocate(ty)
        self.note_write("object.__class__")
        init = self.repo.find_method(cdef, "__init__")
        if isinstance(init, FuncDef):
            self.call_function(init, [ref] + args, kwargs, node, cls=cdef)
        elif args or kwargs:
            raise Unsupported(f"{cdef.name}() with arguments but no __init__ in /repo")
        return ref

    # ---------------- contracts at call sites ----------------
    def apply_contract(self, con, fdef, args, kwargs, node, self_expr=None):
        if fdef is not None:
            frame = self.bind_args(fdef.node, args, kwargs, node)
            self._eval_defaults(frame, fdef.module, [{}])
        else:
            names = list(con.params)
            frame = dict(zip(names, args))
            for k, v in kwargs.items():
                if k not in con.params:
                    self.res.drops.add(f"keyword '{k}' passed to {con.qualname} is outside its assumed contract (ignored)")
                    continue
                frame[k] = v
            for n in names:
                if n not in frame:
                    d = getattr(con, "defaults", {}).get(n, KeyError)
                    if d is KeyError:
                        raise Unsupported(f"{con.qualname}: missing argument {n}")
                    frame[n] = d
        params = {}
        for n, t in con.params.items():
            if isinstance(t, dict):
                # declared **kwargs: what the call site passes, absent keys being absent
                passed = frame.get(n)
                items = dict(passed.items) if isinstance(passed, SDict) else {}
                params[n] = SDict({k: items[k] if k in items else (z3.BoolVal(False), kt.fresh("absent_" + k)) for k, kt in t.items()})
                continue
            if not isinstance(t, Ty):
                continue  # fixed by the contract when the body is verified (not a sort): irrelevant at call sites
            if n not in frame:
                raise Unsupported(f"{con.qualname}: contract param {n} not bound")
            v = frame[n]
            params[n] = v if (isinstance(v, SV) and v.ty == t) else self.coerce(v, t)
        if con.assumed:
            self.res.assumed_used.add(con.qualname)
            for text in (con.assumes or []):
                self.res.assumed_used.add(f"{con.qualname}: {text}")
        h0 = self.view(dict(self.st.heap), self.st.alloc)
        c0 = Ctx(self, params, h0, h0)
        if con.requires is not None:
            self.oblige("call.pre", lift(con.requires(c0), TBool), node, f"precondition of {con.qualname}")
            self.assume(lift(con.requires(c0), TBool))
        # havoc
        if self.in_quant is not None and con.modifies and con.modifies(c0):
            raise Unsupported(f"call of {con.qualname} (which modifies state) inside a comprehension over a symbolic collection")
        for item in (con.modifies(c0) if con.modifies else []):
            key = item[0]
            self.materialise(key)
            self.note_write(key)
            cur = self.st.heap[key]
            if key.startswith("G."):
                self.st.heap[key] = cur.ty.fresh("g_" + key[2:])
            elif len(item) > 1 and item[1] is not None:
                fresh = z3.Const(f"hv!{self.fresh_id()}", cur.sort().range())
                self.st.heap[key] = z3.Store(cur, item[1].t, fresh)
            else:
                self.st.heap[key] = z3.Const(f"hv_{key.replace('.', '_')}!{self.fresh_id()}", cur.sort())
        # outcomes: normal or one of the allowed exceptions
        outcomes = ["ok"] + list(con.raises)
        conds = [z3.BoolVal(True)]
        for ex, (when, _post) in con.raises.items():
            conds.append(lift(when(c0), TBool).t if when is not None else z3.BoolVal(True))
        if len(outcomes) > 1:
            sel = z3.Int(f"outcome!{self.fresh_id()}")
            alts = [z3.And(sel == i, conds[i]) for i in range(len(outcomes))]
            alts_ex = alts + [z3.And(*[sel != i for i in range(len(outcomes))])]
            i = self.decide(alts)
        else:
            i = 0
        result = None
        if i == 0:
            if con.returns is not None:
                rname = "ret_" + con.qualname.split(":")[-1].replace(".", "_")
                if self.in_quant is not None:
                    # inside a comprehension over a symbolic collection the result depends on the element: a function of the bound index
                    fn = z3.Function(f"{rname}!{self.fresh_id()}", z3.IntSort(), con.returns.sort())
                    result = SV(fn(self.in_quant[0]), con.returns)
                else:
                    result = con.returns.fresh(rname)
                if con.fresh_result and isinstance(con.returns, TRef):
                    self.st.pc.append(z3.Not(z3.IsMember(result.t, self.st.alloc)))
                    self.st.alloc = z3.SetAdd(self.st.alloc, result.t)
                    self.note_write("alloc")
            c1 = Ctx(self, params, h0, self.view(), result=result)
            if con.ensures is not None:
                self.assume(lift(con.ensures(c1), TBool))
            if not self.oracle(self.feasible):
                raise PathEnd()
            self.proof_hints(con.qualname, node)
            if con.modifies is not None:
                self.crash_point(node, con.qualname)
            return result
        ex = outcomes[i]
        post = con.raises[ex][1]
        if post is not None:
            c1 = Ctx(self, params, h0, self.view(), exc=ex)
            self.assume(lift(post(c1), TBool))
        raise RaiseEx(ex, None, node)

    def proof_hints(self, callee, node):
        """intermediate assertions supplied by the contract of the function under verification: each is an obligation
        where it stands and an assumption afterwards (like an `assert` in an auto-active verifier)"""
        top = self.cur_contract
        if top is None or not top.hints or self.discovery or len(self.fn_stack) != 1:
            return
        for suffix, hint in top.hints.items():
            if callee.endswith(suffix):
                c = self.make_ctx(top)
                c.loc = type(c.loc)(self.visible_locals())
                f = lift(hint(c), TBool)
                self.oblige("hint", f, node, f"proof hint after {callee}")
                self.assume(f)

    def crash_point(self, node, what):
        """after a state-mutating call: the crash condition of the function under verification must hold"""
        top = self.cur_contract
        if top is None or top.crash is None or self.discovery:
            return
        if len(self.fn_stack) != 1:
            return  # only calls made directly by the function under verification are crash points of *its* contract
        c = self.make_ctx(top)
        self.oblige("crash", lift(top.crash(c), TBool), node, f"crash condition after {what}")

    def coerce(self, v, t):
        from .builtins_ import _EmptySet

        if isinstance(v, _EmptySet):
            if isinstance(t, TSet):
                return t.empty()
            raise Unsupported(f"set() where {t} expected")
        if isinstance(v, (tuple, list)) and isinstance(t, TTuple) and len(v) == len(t.elems):
            return t.mk(*[self.coerce(x, e) for x, e in zip(v, t.elems)])
        if isinstance(v, (tuple, list)) and isinstance(t, TSet):
            s = t.empty()
            for x in v:
                s = s.add(self._elem(x, t.elem))
            return s
        if isinstance(v, SDict) and not v.items and isinstance(t, (TMap, TOMap)):
            e = t.empty()
            if isinstance(t, TOMap):
                from . import specfn

                self.st.pc.append(specfn.list_elems(t.keys(e)).t == z3.EmptySet(t.key.sort()))
            return e
        if isinstance(v, (tuple, list)) and isinstance(t, TList):
            from . import specfn

            acc = t.empty()
            self.st.pc.append(specfn.list_elems(acc).t == z3.EmptySet(t.elem.sort()))
            for x in v:
                xe = self._elem(x, t.elem)
                new = t.append(acc, xe)
                self.st.pc.append(specfn.list_elems(new).t == z3.SetAdd(specfn.list_elems(acc).t, xe.t))
                acc = new
            return acc
        if isinstance(v, SV) and isinstance(t, TTuple) and isinstance(v.ty, TOpt) and isinstance(v.ty.elem, TTuple):
            self.oblige("attr", v.ty.is_some(v), self.cur_node, "None where a tuple is required")
            self.assume(v.ty.is_some(v))
            v = v.ty.val(v)
        if isinstance(v, SV) and isinstance(t, TTuple) and isinstance(v.ty, TTuple) and v.ty != t and len(v.ty.elems) == len(t.elems):
            return t.mk(*[self.coerce(v.ty.get(v, i), e) for i, e in enumerate(t.elems)])
        if isinstance(v, SV):
            if isinstance(v.ty, TOpt) and not isinstance(t, TOpt) and v.ty.elem == t:
                self.oblige("attr", v.ty.is_some(v), self.cur_node, "None where a value is required")
                self.assume(v.ty.is_some(v))
                return v.ty.val(v)
            return lift(v, t)
        if isinstance(v, (tuple, list)):
            return self.lift_like(v, t)
        if isinstance(v, SDict) and isinstance(t, TRec) and getattr(t, "dictlike", False):
            # a dict literal with constant keys where a stat-like record (known key set, every key optional) is expected;
            # keys the record type does not model are dropped
            vals = {}
            for fname, fty in t.fields.items():
                if fname in v.items:
                    pres, x = v.items[fname]
                    xe = self.coerce(x, fty.elem if isinstance(fty, TOpt) else fty)
                    some = fty.some(xe) if isinstance(fty, TOpt) else xe
                    vals[fname] = some if z3.is_true(z3.simplify(pres)) else SV(z3.If(pres, some.t, fty.none().t), fty)
                else:
                    if not isinstance(fty, TOpt):
                        raise Unsupported(f"dict literal lacks key {fname}")
                    vals[fname] = fty.none()
            return t.mk(**vals)
        if isinstance(v, SDict) and isinstance(t, TMap):
            m = t.empty()
            for k, (p, x) in v.items.items():
                if not z3.is_true(z3.simplify(p)):
                    raise Unsupported("conditional key to map")
                m = self.map_store(m, k, x)
            return m
        if isinstance(v, Extern):
            rt = t.elem if isinstance(t, TOpt) else t
            if isinstance(rt, TRef):
                # an object imported from a dependency (e.g. DEFAULT_CALLBACK): an opaque allocated reference
                r = rt.fresh("ext_" + v.dotted.split(".")[-1])
                self.st.pc.append(z3.IsMember(r.t, self.st.alloc))
                return lift(r, t)
        if isinstance(v, (Closure, FuncDef)) :
            raise Unsupported(f"closure passed where {t} expected")
        return lift(v, t)

    def call_extern(self, qual, args, kwargs, node, self_expr):
        con = self.reg.get(qual)
        if con is None:
            h = self.extern_handler(qual)
            if h is not None:
                return h(self, args, kwargs, node, self_expr)
            raise Unsupported(f"no contract for external {qual} (L{getattr(node, 'lineno', '?')})")
        return self.apply_contract(con, None, args, kwargs, node, self_expr)
