"""Insertion-ordered dicts (TOMap), indexable views (items / zip / lists) and comprehensions over them (mixin)."""
from __future__ import annotations

import ast

import z3

from . import specfn
from .state import RaiseEx
from .types import SV, TBool, TInt, TList, TOMap, TOpt, TSeq, TSet, TTuple, Unsupported, lift


def _pattern_terms(x, i):
    """terms of the i-th source element usable as quantifier triggers (so that facts fire from either side)"""
    out = []
    todo = [x]
    while todo:
        y = todo.pop()
        if isinstance(y, (tuple, list)):
            todo.extend(y)
        elif isinstance(y, SV) and z3.is_app(y.t) and y.t.num_args() > 0 and not z3.is_const(y.t):
            if any(z3.eq(i, a) for a in _subterms(y.t, 40)) and y.t.decl().kind() == z3.Z3_OP_SELECT:
                out.append(y.t)
    return out[:2]


def _subterms(t, limit):
    seen = []
    todo = [t]
    while todo and len(seen) < limit:
        u = todo.pop()
        seen.append(u)
        todo.extend(u.children())
    return seen


class View:
    """an indexable, finite iterable: n elements, element(i) may be a Python tuple of values"""

    def __init__(self, n: SV, elem, what):
        self.n = n
        self.elem = elem
        self.what = what


class OMapMixin:
    in_quant = None

    # ---------------- views ----------------
    def as_view(self, v):
        if isinstance(v, View):
            return v
        if isinstance(v, SV) and isinstance(v.ty, TList):
            def el(i, L=v):
                self.st.pc.append(specfn.list_elems(L).contains(L[i]).t)  # theory-valid: an element is a member
                return L[i]

            return View(v.length(), el, "list")
        if isinstance(v, SV) and isinstance(v.ty, TOMap):
            ks = v.ty.keys(v)
            return self.as_view(ks)
        if isinstance(v, SV) and isinstance(v.ty, TSeq):
            return View(v.length(), lambda i, s=v: s[i], "seq")
        return None

    def items_view(self, m):
        ks = m.ty.keys(m)

        def el(i):
            k = ks[i]
            self.st.pc.append(specfn.list_elems(ks).contains(k).t)
            return (k, m.ty.at(m, k))

        return View(ks.length(), el, "items")

    def values_view(self, m):
        ks = m.ty.keys(m)
        return View(ks.length(), lambda i: m.ty.at(m, ks[i]), "values")

    def zip_views(self, views):
        n = views[0].n
        for w in views[1:]:
            n = SV(z3.If(w.n.t < n.t, w.n.t, n.t), TInt)
        return View(n, lambda i: tuple(w.elem(i) for w in views), "zip")

    def proves(self, fact, timeout_ms=4000):
        """in-engine proof attempt of an auxiliary fact under the current path condition (sound either way: a failed
        attempt only means the weaker conditional encoding is used)"""
        from .types import BACKGROUND

        sol = z3.Solver()
        sol.set("timeout", timeout_ms)
        for a in BACKGROUND:
            sol.add(a)
        for p_ in self.st.pc:
            sol.add(p_)
        sol.add(z3.Not(fact))
        return sol.check() == z3.unsat

    def omap_dom(self, m):
        return specfn.list_elems(m.ty.keys(m))

    def omap_wf(self, m):
        """keys are pairwise distinct (dict invariant)"""
        ks = m.ty.keys(m)
        i, j = z3.Int("i!wf"), z3.Int("j!wf")
        return SV(z3.And(ks.length().t >= 0,
                         z3.ForAll([i, j], z3.Implies(z3.And(0 <= i, i < j, j < ks.length().t), ks[SV(i, TInt)].t != ks[SV(j, TInt)].t)),
                         # the ghost domain is the set of the listed keys
                         z3.ForAll([i], z3.Implies(z3.And(0 <= i, i < ks.length().t), specfn.list_elems(ks).contains(ks[SV(i, TInt)]).t)),
                         # ... and nothing else: every member has a position (explicit witness function: no matching loop)
                         self._pos_fact(ks)), TBool)

    def _pos_fact(self, ks):
        from .types import _san

        x = z3.Const("x!pos", ks.ty.elem.sort())
        pos = specfn.ufn("pos_" + _san(ks.ty.name), ks.ty.sort(), ks.ty.elem.sort(), z3.IntSort())
        px = pos(ks.t, x)
        mem = specfn.list_elems(ks).contains(SV(x, ks.ty.elem)).t
        body = z3.Implies(mem, z3.And(px >= 0, px < ks.length().t, ks[SV(px, TInt)].t == x))
        try:
            return z3.ForAll([x], body, patterns=[mem])
        except z3.Z3Exception:
            return z3.ForAll([x], body)  # keys of a merged (if-then-else) map: no explicit trigger possible

    # ---------------- element access ----------------
    def omap_get(self, m, k, node):
        k = self._elem(k, m.ty.key)
        present = self.omap_dom(m).contains(k)
        if self.in_quant is not None:
            i, guard = self.in_quant
            g = z3.ForAll([i], z3.Implies(guard, present.t))
            self.oblige("keyerror", g, node, "dict lookup inside a comprehension must not raise KeyError for any element")
            self.st.pc.append(present.t)
            return m.ty.at(m, k)
        if not self.branch(present):
            raise RaiseEx("KeyError", None, node)
        return m.ty.at(m, k)

    def omap_store(self, m, k, v):
        ty = m.ty
        k = self._elem(k, ty.key)
        v = self.coerce(v, ty.val)
        ks = ty.keys(m)
        present = specfn.list_elems(ks).contains(k)
        appended = ty.keys_ty.append(ks, k)
        self.st.pc.append(specfn.list_elems(appended).t == z3.SetAdd(specfn.list_elems(ks).t, k.t))
        nks = SV(z3.If(present.t, ks.t, appended.t), ty.keys_ty)
        self.st.pc.append(specfn.list_elems(nks).t == z3.SetAdd(specfn.list_elems(ks).t, k.t))
        return ty.mk(nks, z3.Store(ty.arr(m), k.t, v.t))

    # ---------------- construction from views ----------------
    def _bound(self, view):
        i = z3.Int(f"i!v{self.fresh_id()}")
        guard = z3.And(i >= 0, i < view.n.t)
        return i, guard

    def _eval_under(self, view, target, exprs, ifs=()):
        """evaluate expressions for the i-th element of a view, i symbolic; returns (i, guard, values)"""
        if ifs:
            raise Unsupported("filtered comprehension over a symbolic ordered collection")
        i, guard = self._bound(view)
        n0 = len(self.st.pc)
        self.st.pc.append(guard)
        saved = self.in_quant
        self.in_quant = (i, guard)
        self.frames.append({})
        try:
            x = view.elem(SV(i, TInt))
            self._src_patterns = _pattern_terms(x, i)
            self.assign(target, x)
            vals = [self.eval(e) for e in exprs]
            extra = self.st.pc[n0 + 1:]
        finally:
            self.frames.pop()
            self.in_quant = saved
            del self.st.pc[n0:]
        # facts learnt about element i hold for every i in range
        for e in extra:
            self.st.pc.append(z3.ForAll([i], z3.Implies(guard, e)))
        return i, guard, vals

    def view_comprehension(self, e, kind, g, view):
        if kind == "dict":
            i, guard, (k, v) = self._eval_under(view, g.target, [e.key, e.value], g.ifs)
            k = k if isinstance(k, SV) else lift(k)
            v = v if isinstance(v, SV) else (self.lift_like(v, self._tuple_type(v)) if isinstance(v, (tuple, list)) else lift(v))
            ty = TOMap(k.ty, v.ty)
            r = ty.fresh("dcomp")
            ks = ty.keys(r)
            # Python semantics: duplicate keys collapse (first position, last value).  Facts that hold in every case:
            #   every produced key is in the domain, and every domain key has the value produced for SOME occurrence of it;
            # the positional facts (keys[i] == k(i), value v(i)) are given only under the hypothesis that the keys are
            # pairwise distinct -- the solver has to establish it (e.g. from the well-formedness of the source dict).
            j = z3.Int(f"j!v{self.fresh_id()}")
            k_j = z3.substitute(k.t, (i, j))
            distinct = z3.ForAll([i, j], z3.Implies(z3.And(guard, z3.substitute(guard, (i, j)), i < j), k.t != k_j))
            self.st.pc.append(self.omap_wf(r).t)
            self.st.pc.append(z3.ForAll([i], z3.Implies(guard, specfn.list_elems(ks).contains(k).t), patterns=self._src_patterns or None))
            y = z3.Const(f"y!d{self.fresh_id()}", k.ty.sort())
            self.st.pc.append(z3.ForAll([y], z3.Implies(specfn.list_elems(ks).contains(SV(y, k.ty)).t,
                                                        z3.Exists([i], z3.And(guard, y == k.t, z3.Select(ty.arr(r), y) == v.t))),
                                        patterns=[z3.Select(ty.arr(r), y)]))
            positional = z3.And(
                ks.length().t == view.n.t,
                z3.ForAll([i], z3.Implies(guard, z3.And(ks[SV(i, TInt)].t == k.t, ty.at(r, k).t == v.t)),
                          patterns=[ks[SV(i, TInt)].t] + self._src_patterns))
            if self.oracle(lambda: self.proves(distinct)):
                # established here and now: later queries get the positional facts without the nested-quantifier hypothesis
                self.st.pc.append(positional)
            else:
                self.st.pc.append(z3.Implies(distinct, positional))
            return r
        if kind in ("list", "gen"):
            i, guard, (v,) = self._eval_under(view, g.target, [e.elt], g.ifs)
            v = v if isinstance(v, SV) else (self.lift_like(v, self._tuple_type(v)) if isinstance(v, (tuple, list)) else lift(v))
            ty = TList(v.ty)
            r = ty.fresh("lcomp")
            self.st.pc.append(r.length().t == view.n.t)
            self.st.pc.append(z3.ForAll([i], z3.Implies(guard, r[SV(i, TInt)].t == v.t), patterns=[r[SV(i, TInt)].t] + self._src_patterns))
            return r
        raise Unsupported(f"{kind} comprehension over an ordered symbolic collection")

    def _tuple_type(self, tup):
        elems = []
        for x in tup:
            if isinstance(x, SV):
                elems.append(x.ty)
            elif isinstance(x, (tuple, list)):
                elems.append(self._tuple_type(x))
            elif x is None:
                from .types import TAbs, TOpt as _TOpt

                elems.append(_TOpt(TAbs("Nothing")))
            else:
                elems.append(lift(x).ty)
        return TTuple(elems)

    def list_of_view(self, view, ety=None):
        """list(view): fresh TList with the pointwise characterisation"""
        i, guard = self._bound(view)
        n0 = len(self.st.pc)
        self.st.pc.append(guard)
        try:
            x = view.elem(SV(i, TInt))
        finally:
            del self.st.pc[n0:]
        x = x if isinstance(x, SV) else self.lift_like(x, self._tuple_type(x))
        ty = TList(x.ty)
        r = ty.fresh("lst")
        self.st.pc.append(r.length().t == view.n.t)
        self.st.pc.append(z3.ForAll([i], z3.Implies(guard, r[SV(i, TInt)].t == x.t), patterns=[r[SV(i, TInt)].t]))
        return r

    def omap_from_pairs(self, L):
        """dict(list of (k, v)) with pairwise distinct keys (assumed)"""
        t2 = L.ty.elem
        if not (isinstance(t2, TTuple) and len(t2.elems) == 2):
            raise Unsupported("dict() of a list whose elements are not pairs")
        ty = TOMap(t2.elems[0], t2.elems[1])
        r = ty.fresh("dict")
        ks = ty.keys(r)
        i = z3.Int(f"i!p{self.fresh_id()}")
        guard = z3.And(i >= 0, i < L.length().t)
        pi = L[SV(i, TInt)]
        self.res.assumed_used.add("dict(pairs): keys of the pairs are pairwise distinct")
        self.st.pc.append(ks.length().t == L.length().t)
        self.st.pc.append(z3.ForAll([i], z3.Implies(guard, z3.And(ks[SV(i, TInt)].t == t2.get(pi, 0).t, ty.at(r, t2.get(pi, 0)).t == t2.get(pi, 1).t,
                                                                  specfn.list_elems(ks).contains(t2.get(pi, 0)).t))))
        self.st.pc.append(self.omap_wf(r).t)
        return r

    def omap_update(self, m, o):
        ty = m.ty
        r = ty.fresh("upd")
        k = z3.Const(f"k!u{self.fresh_id()}", ty.key.sort())
        dm, do, dr = self.omap_dom(m), self.omap_dom(o), self.omap_dom(r)
        self.st.pc.append(dr.t == z3.SetUnion(dm.t, do.t))
        self.st.pc.append(z3.ForAll([k], z3.Select(ty.arr(r), k) == z3.If(z3.IsMember(k, do.t), z3.Select(ty.arr(o), k), z3.Select(ty.arr(m), k))))
        self.st.pc.append(self.omap_wf(r).t)
        return r
