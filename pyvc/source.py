"""Locate the real functions/classes of /repo/src by qualified name, every run."""
from __future__ import annotations

import ast
import hashlib
import os

REPO_SRC = os.environ.get("PYVC_REPO_SRC", "/repo/src")


class FuncDef:
    def __init__(self, node, module, cls=None):
        self.node = node
        self.module = module
        self.cls = cls
        self.name = node.name
        self.qualname = f"{module.name}:{(cls.name + '.') if cls else ''}{node.name}"
        self.is_generator = any(
            isinstance(n, (ast.Yield, ast.YieldFrom)) for n in _walk_own(node)
        )
        self.decorators = [ast.unparse(d) for d in node.decorator_list]

    @property
    def is_property(self):
        return "property" in self.decorators or "cached_property" in self.decorators

    @property
    def is_classmethod(self):
        return "classmethod" in self.decorators

    @property
    def is_staticmethod(self):
        return "staticmethod" in self.decorators

    def source_info(self):
        seg = getattr(self, "harness_text", None) or ast.get_source_segment(self.module.text, self.node) or ""
        return {
            "qualname": self.qualname,
            "file": os.path.relpath(self.module.path, os.path.dirname(REPO_SRC)),
            "lines": [self.node.lineno, self.node.end_lineno],
            "sha1": hashlib.sha1(seg.encode()).hexdigest(),
        }

    def __repr__(self):
        return f"<FuncDef {self.qualname}>"


def _walk_own(fn):
    """walk a function body without descending into nested defs/lambdas"""
    todo = list(fn.body)
    while todo:
        n = todo.pop()
        yield n
        for c in ast.iter_child_nodes(n):
            if isinstance(c, (ast.FunctionDef, ast.AsyncFunctionDef, ast.Lambda, ast.ClassDef)):
                continue
            todo.append(c)


class ClassDef:
    def __init__(self, node, module):
        self.node = node
        self.module = module
        self.name = node.name
        self.qualname = f"{module.name}:{node.name}"
        self.methods: dict[str, FuncDef] = {}
        self.consts: dict[str, ast.expr] = {}
        self.ann_fields: list[tuple[str, ast.expr, ast.expr | None]] = []
        self.bases = [ast.unparse(b) for b in node.bases]
        self.decorators = [ast.unparse(d) for d in node.decorator_list]
        for st in node.body:
            if isinstance(st, ast.FunctionDef):
                self.methods[st.name] = FuncDef(st, module, self)
            elif isinstance(st, ast.AnnAssign) and isinstance(st.target, ast.Name):
                ann = ast.unparse(st.annotation)
                if ann.startswith("ClassVar"):
                    if st.value is not None:
                        self.consts[st.target.id] = st.value
                else:
                    self.ann_fields.append((st.target.id, st.annotation, st.value))
            elif isinstance(st, ast.Assign) and len(st.targets) == 1 and isinstance(st.targets[0], ast.Name):
                self.consts[st.targets[0].id] = st.value

    def __repr__(self):
        return f"<ClassDef {self.qualname}>"


class Extern:
    """a name imported from outside /repo/src/dvc_data"""

    def __init__(self, dotted):
        self.dotted = dotted

    def __repr__(self):
        return f"<Extern {self.dotted}>"

    def __eq__(self, o):
        return isinstance(o, Extern) and o.dotted == self.dotted

    def __hash__(self):
        return hash(self.dotted)


class ModuleRef:
    def __init__(self, name):
        self.name = name

    def __repr__(self):
        return f"<ModuleRef {self.name}>"


class Module:
    def __init__(self, name, path):
        self.name = name
        self.path = path
        with open(path, encoding="utf-8") as f:
            self.text = f.read()
        self.tree = ast.parse(self.text, filename=path)
        self.defs: dict[str, object] = {}
        self.is_pkg = os.path.basename(path) == "__init__.py"
        self._scan(self.tree.body)

    def _pkg(self):
        return self.name if self.is_pkg else self.name.rsplit(".", 1)[0]

    def _scan(self, body):
        for st in body:
            if isinstance(st, ast.FunctionDef):
                self.defs[st.name] = FuncDef(st, self)
            elif isinstance(st, ast.ClassDef):
                self.defs[st.name] = ClassDef(st, self)
            elif isinstance(st, ast.Assign):
                for t in st.targets:
                    if isinstance(t, ast.Name):
                        self.defs[t.id] = ("const", st.value)
            elif isinstance(st, ast.AnnAssign) and isinstance(st.target, ast.Name) and st.value is not None:
                self.defs[st.target.id] = ("const", st.value)
            elif isinstance(st, (ast.Import, ast.ImportFrom)):
                for k, v in self.import_bindings(st).items():
                    self.defs[k] = v
            elif isinstance(st, ast.If):
                # `if TYPE_CHECKING:` imports are dropped (extraction_drops)
                if "TYPE_CHECKING" in ast.unparse(st.test):
                    self._scan(st.orelse)
                else:
                    self._scan(st.body)
                    self._scan(st.orelse)
            elif isinstance(st, ast.Try):
                self._scan(st.body)

    def import_bindings(self, st):
        out = {}
        if isinstance(st, ast.Import):
            for a in st.names:
                nm = a.asname or a.name.split(".")[0]
                target = a.name if a.asname else a.name.split(".")[0]
                out[nm] = ("import", target, None)
        else:
            if st.level:
                base = self._pkg().split(".")
                if st.level > 1:
                    base = base[: -(st.level - 1)]
                mod = ".".join(base + ([st.module] if st.module else []))
            else:
                mod = st.module
            for a in st.names:
                out[a.asname or a.name] = ("import", mod, a.name)
        return out


class Repo:
    def __init__(self, src=None):
        self.src = src or REPO_SRC
        self.modules: dict[str, Module] = {}
        self.harnesses: dict[str, FuncDef] = {}

    def module(self, name) -> Module | None:
        if name in self.modules:
            return self.modules[name]
        if not name.startswith("dvc_data"):
            return None
        base = os.path.join(self.src, *name.split("."))
        for p in (base + ".py", os.path.join(base, "__init__.py")):
            if os.path.exists(p):
                self.modules[name] = Module(name, p)
                return self.modules[name]
        return None

    def add_harness(self, modname, name, src):
        """a small function written in a contract file, run in the namespace of a real module: it may only
        call real functions (which are inlined or replaced by their contracts as usual)"""
        m = self.module(modname)
        node = ast.parse(src).body[0]
        node.name = name
        f = FuncDef(node, m)
        f.qualname = f"{modname}:<harness>{name}"
        f.harness_text = src
        self.harnesses[f.qualname] = f
        return f

    def lookup(self, qualname):
        """'pkg.mod:func' or 'pkg.mod:Class.method' or 'pkg.mod:Class'"""
        if qualname in self.harnesses:
            return self.harnesses[qualname]
        modname, _, rest = qualname.partition(":")
        m = self.module(modname)
        if m is None:
            return None
        parts = rest.split(".")
        d = self.resolve(m, parts[0])
        for p in parts[1:]:
            if isinstance(d, ClassDef):
                d = self.find_method(d, p)
            else:
                return None
        return d

    def resolve(self, module: Module, name, _depth=0):
        """resolve a global name of a module to FuncDef/ClassDef/Extern/ModuleRef/('const', expr, module)"""
        d = module.defs.get(name)
        if d is None:
            return None
        if isinstance(d, (FuncDef, ClassDef)):
            return d
        if d[0] == "const":
            return ("const", d[1], module)
        if d[0] == "import":
            _, mod, attr = d
            if attr is None:
                if mod.startswith("dvc_data") and self.module(mod):
                    return ModuleRef(mod)
                return Extern(mod)
            m = self.module(mod) if mod and mod.startswith("dvc_data") else None
            if m is None:
                return Extern(f"{mod}.{attr}")
            r = self.resolve(m, attr, _depth + 1) if _depth < 10 else None
            if r is None:
                sub = self.module(f"{mod}.{attr}")
                if sub is not None:
                    return ModuleRef(sub.name)
                return Extern(f"{mod}.{attr}")
            return r
        return None

    def class_bases(self, c: ClassDef):
        out = []
        for b in c.bases:
            parts = b.split("[")[0].split(".")
            r = self.resolve(c.module, parts[0])
            if isinstance(r, ClassDef):
                out.append(r)
            elif isinstance(r, Extern):
                out.append(Extern(".".join([r.dotted] + parts[1:])))
            elif r is None:
                out.append(Extern(b))
        return out

    def mro(self, c: ClassDef):
        out = [c]
        for b in self.class_bases(c):
            if isinstance(b, ClassDef):
                for x in self.mro(b):
                    if x not in out:
                        out.append(x)
            else:
                out.append(b)
        return out

    def find_method(self, c: ClassDef, name, after: ClassDef | None = None):
        """first definition of `name` in the MRO (after class `after` if given);
        returns FuncDef, or Extern('<base dotted>.<name>') if it reaches an external base"""
        mro = self.mro(c)
        if after is not None:
            mro = mro[mro.index(after) + 1 :]
        for k in mro:
            if isinstance(k, ClassDef):
                if name in k.methods:
                    return k.methods[name]
            else:
                return Extern(f"{k.dotted}.{name}")
        return None

    def find_class_const(self, c: ClassDef, name):
        for k in self.mro(c):
            if isinstance(k, ClassDef) and name in k.consts:
                return ("const", k.consts[name], k.module)
        return None
