"""Check a property: generate obligations for every function under contract that
serves it, discharge them, replay counter-models, write evidence."""
from __future__ import annotations

import glob
import hashlib
import importlib
import json
import os
import subprocess
import sys
import time
import traceback
from collections import Counter

import z3

from .concretize import NotConcretizable, from_python, resolve_model, to_python, _real_class
from .contracts import REG
from .engine import Ctx
from .interp import Interp
from .solve import discharge
from .source import FuncDef, Repo
from .types import SV, TBool, Ty, lift

VERIF = os.path.dirname(os.path.dirname(os.path.abspath(__file__)))


def load_contracts():
    sys.path.insert(0, VERIF)
    from .source import REPO_SRC

    if REPO_SRC not in sys.path:
        sys.path.insert(0, REPO_SRC)  # native replays import the same tree the VCs were generated from
    for p in sorted(glob.glob(os.path.join(VERIF, "contracts", "*.py"))):
        name = os.path.basename(p)[:-3]
        if name.startswith("_"):
            continue
        importlib.import_module("contracts." + name)


def known_findings():
    p = os.path.join(VERIF, "known_findings.json")
    if not os.path.exists(p):
        return {"findings": [], "fixed": []}
    return json.load(open(p))


def ghost_decls():
    try:
        from specs import ghost

        return ghost.GHOSTS
    except ImportError:
        return {}


# ----------------------------------------------------------------------
def native_replay(repo, con, fdef, ob, model):
    """pure functions: run the real function on the model's arguments and evaluate the contract on the outcome"""
    out = {"kind": "native-pure", "reproduced": False}
    if model is None:
        out["detail"] = "could not re-derive a model in-process"
        return out
    if not getattr(con, "pure", False) and not getattr(fdef, "harness_text", None):
        out["detail"] = "function is not declared pure: no generic native replay (see replay driver of the property, if any)"
        return out
    try:
        params = {n: t.const("p_" + n) for n, t in con.params.items() if isinstance(t, Ty)}
        args = {n: to_python(model, v) for n, v in params.items()}
        out["args"] = {k: repr(v)[:500] for k, v in args.items()}
        if getattr(fdef, "harness_text", None):
            import importlib

            ns = dict(vars(importlib.import_module(fdef.module.name)))
            exec(fdef.harness_text, ns)  # the harness calls the real functions of the same tree
            target = ns["h"]
        else:
            target = _real_class(fdef.qualname)
        call_args = dict(args)
        exc = None
        res = None
        try:
            if fdef.cls is not None and not fdef.is_staticmethod and not fdef.is_classmethod:
                selfv = call_args.pop("self")
                attr = getattr(type(selfv), fdef.name)
                if isinstance(attr, property):
                    res = attr.fget(selfv)
                else:
                    res = attr(selfv, **call_args)
            elif fdef.is_classmethod:
                call_args.pop("cls", None)
                res = target(**call_args)
            else:
                res = target(**call_args)
        except Exception as e:  # noqa: BLE001
            exc = type(e).__name__
            out["native_exception"] = f"{exc}: {e}"[:300]
        out["native_result"] = repr(res)[:500]
        eng = Interp(repo, REG, ghost_decls())
        eng.st.heap = {}
        h = eng.view({}, eng.st.alloc)
        if exc is None and con.native_check is not None:
            ok = bool(con.native_check(args, res))
            out["contract_on_native_outcome"] = str(ok)
            out["reproduced"] = not ok
        elif exc is None:
            rv = from_python(res, con.returns) if con.returns is not None else None
            c = Ctx(eng, params, h, h, result=rv)
            if ob.kind == "post" and con.ensures is not None:
                val = model.eval(lift(con.ensures(c), TBool).t, model_completion=True)
                out["contract_on_native_outcome"] = str(val)
                out["reproduced"] = z3.is_false(val)
            elif ob.kind.startswith("lemma."):
                lem = con.lemmas[ob.kind[6:]]
                val = model.eval(lift(lem(c), TBool).t, model_completion=True)
                out["contract_on_native_outcome"] = str(val)
                out["reproduced"] = z3.is_false(val)
            else:
                out["detail"] = f"obligation kind {ob.kind}: the native run completed without raising"
                out["reproduced"] = False
        else:
            allowed = False
            from .state import exc_isa

            for name, (when, post) in con.raises.items():
                if exc_isa(exc, name):
                    c0 = Ctx(eng, params, h, h)
                    val = model.eval(lift(when(c0), TBool).t, model_completion=True) if when else z3.BoolVal(True)
                    allowed = z3.is_true(val)
            out["reproduced"] = not allowed
            out["detail"] = f"native run raised {exc}; allowed by contract: {allowed}"
    except NotConcretizable as e:
        out["detail"] = f"model not concretisable: {e}"
    except Exception as e:  # noqa: BLE001
        out["detail"] = "replay harness error: " + repr(e)
        out["trace"] = traceback.format_exc()[-800:]
    return out


def check_property(pid, tier="quick", seed=0, out=sys.stdout):
    t_start = time.time()
    load_contracts()
    repo = Repo()
    timeout = 10 if tier == "quick" else 60
    cons = [c for c in REG.for_property(pid) if c.verify and not c.assumed]
    results = []
    all_obs = []
    for con in sorted(cons, key=lambda c: c.qualname):
        eng = Interp(repo, REG, ghost_decls())
        r = eng.verify(con.qualname)
        results.append((con, r))
        all_obs.extend(r.obligations)
    t_gen = time.time() - t_start
    discharge(all_obs, timeout_s=timeout, both=(tier == "thorough"))
    # ---- verdicts ----
    kf = known_findings()
    ledger = {}
    lp = os.path.join(VERIF, "baseline_obligations.json")
    if os.path.exists(lp):
        ledger = json.load(open(lp))
    known = [f for f in kf.get("findings", []) if f["property"] == pid]
    violations, undecided, crashes, known_hits = [], [], [], []
    replay_cache = {}
    rdir = os.path.join(VERIF, "replays", pid)
    os.makedirs(rdir, exist_ok=True)
    for old in glob.glob(os.path.join(rdir, "*.json")):
        os.unlink(old)
    for con, r in results:
        for u in r.undecided:
            undecided.append(f"{con.qualname}: {u}")
        if not r.obligations and not r.undecided:
            crashes.append(f"{con.qualname}: zero obligations generated")
        for ob in r.obligations:
            if ob.result == "unsat":
                continue
            if ob.result in ("unknown",):
                # an obligation of a function that was completely discharged on the pinned tree and is not any more:
                # reported as a violation without a counter-model; anything else stays undecided
                led = ledger.get(pid, {}).get(con.qualname)
                if not (led and led.get("all_discharged")):
                    undecided.append(f"{ob.oid}: solver answered unknown {ob.note}")
                    continue
            if ob.result in ("error", "disagree"):
                crashes.append(f"{ob.oid}: {ob.result} {ob.note}")
                continue
            # sat: a counter-model
            fdef = repo.lookup(con.qualname)
            model = resolve_model(ob.pc, ob.goal) if ob.result == "sat" else None
            custom = getattr(con, "replay", None)
            if custom:
                if con.qualname not in replay_cache:
                    replay_cache[con.qualname] = custom(repo, con, fdef, ob, model)
                rep = replay_cache[con.qualname]
            else:
                rep = native_replay(repo, con, fdef, ob, model)
            sig = rep.get("signature") or ob.oid.split("@")[0]
            hit = None
            for f in known:
                if f.get("obligation") == ob.oid.split("@")[0] and (not f.get("signature") or f["signature"] == sig):
                    hit = f
            rec = {
                "verdict": "counter-model" if ob.result == "sat" else "obligation discharged on the pinned tree is no longer discharged (solver: unknown)",
                "property": pid,
                "obligation": ob.oid,
                "function": con.qualname,
                "kind": ob.kind,
                "note": ob.note,
                "path_condition": [str(p)[:400] for p in ob.pc][-12:],
                "goal": str(ob.goal)[:1500],
                "solver_model": ob.model,
                "replay": rep,
                "source": r.source,
            }
            fname = os.path.join("replays", pid, ob.oid.replace(":", "_").replace("#", "__").replace("/", "_").replace("<", "").replace(">", "-") + "_" + hashlib.sha1((str(ob.pc) + str(ob.goal)).encode()).hexdigest()[:8] + ".json")
            json.dump(rec, open(os.path.join(VERIF, fname), "w"), indent=1, default=str)
            if hit:
                known_hits.append((hit, ob, fname))
            else:
                violations.append((ob, rep, fname))
    # ---- bounded stand-ins (labelled; never counted as proved) ----
    bounded_reports = []
    from concurrent.futures import ThreadPoolExecutor

    from .source import REPO_SRC

    def _run_standin(con):
        script, nq, nt = con.bounded
        n = nq if tier == "quick" else nt
        rep = {"function": con.qualname, "tool": "run-time check of the contract on generated inputs (" + script + ")", "n": n}
        try:
            # generous limit: the stand-ins of one check run four at a time and the machine may be busy; a time-out is a checker
            # failure (exit 3), never a verdict
            p = subprocess.run(["/venv/bin/python", os.path.join(VERIF, script), str(n)], capture_output=True, text=True,
                               timeout=900 if tier == "quick" else 3600,
                               env=dict(os.environ, PYVC_REPO_SRC=REPO_SRC, VERIF_SEED=str(seed)))
            rep.update(json.loads(p.stdout.strip().splitlines()[-1]))
            return rep, None
        except Exception as e:  # noqa: BLE001
            rep["error"] = repr(e)
            return rep, f"bounded stand-in for {con.qualname} could not run: {e!r}"

    standins = [con for con in REG.for_property(pid) if con.bounded]
    with ThreadPoolExecutor(max_workers=4) as pool:
        standin_results = list(pool.map(_run_standin, standins))
    for con, (rep, err) in zip(standins, standin_results):
        script = con.bounded[0]
        if err:
            crashes.append(err)
        bounded_reports.append(rep)
        # known findings of a bounded stand-in are matched per failing input by its signature (never by count): a failure
        # whose signature is not listed -- or a report that does not list every failure -- is a violation
        fails = rep.get("failures") or []
        kb = [f for f in known if f.get("bounded") == script]
        listed_all = len(fails) == int(rep.get("n_failures") or 0)
        unknown_fails = [x for x in fails if not (isinstance(x, dict) and any(k.get("signature") and k["signature"] == x.get("signature") for k in kb))]
        for k in kb:
            if any(isinstance(x, dict) and x.get("signature") == k.get("signature") for x in fails):
                known_hits.append((k, None, ""))
        if rep.get("n_failures") and (unknown_fails or not listed_all):
            rep = dict(rep, failures=unknown_fails or fails)
            fname = os.path.join("replays", pid, "bounded_" + con.qualname.replace(":", "_").replace(".", "_").replace("#", "_") + ".json")
            json.dump({"property": pid, "verdict": "bounded stand-in found a failing input (native run of the real function)", "function": con.qualname,
                       "replay": {"reproduced": True, "failing": rep.get("failures")}}, open(os.path.join(VERIF, fname), "w"), indent=1, default=str)

            class _B:
                oid = con.qualname + "#bounded"
                note = "bounded stand-in: contract violated on a generated input"

            violations.append((_B, {"reproduced": True}, fname))
    # ---- evidence ----
    n_obl = len(all_obs)
    n_dis = sum(1 for o in all_obs if o.result == "unsat")
    by_backend = Counter(o.backend for o in all_obs if o.result == "unsat")
    trusted = sorted({a for _, r in results for a in r.assumed_used})
    samples = []
    for o in all_obs[:: max(1, len(all_obs) // 6)][:6]:
        samples.append({"id": o.oid, "kind": o.kind, "result": o.result, "backend": o.backend, "time_s": round(o.time, 4),
                        "smt2_bytes": len(o.smt2 or ""), "path_condition_size": len(o.pc), "goal": str(o.goal)[:300]})
    level = "proof" if (n_obl and n_dis == n_obl and not undecided and not crashes) else "other"
    b_evals = sum(int(r.get("evaluations", 0) or 0) for r in bounded_reports)
    b_distinct = sum(int(r.get("distinct_nontrivial", 0) or 0) for r in bounded_reports)
    if n_obl == 0 and bounded_reports:
        level = "exploration"  # nothing was proved for this property: bounded stand-ins only
    try:
        # the level is the one CLAIMED for the property: where the proved functions do not carry the property (C17) the claim is
        # 'exploration', and the evidence says so too however many obligations were discharged
        claimed = next(c["level_claimed"]["category"] for c in json.load(open(os.path.join(VERIF, "MANIFEST.json")))["checks"] if c["property_id"] == pid)
        if claimed == "exploration" and level == "proof":
            level = "exploration"
    except Exception:  # noqa: BLE001,S110
        pass
    ev = {
        "property_id": pid,
        "tier": tier,
        "seed": int(seed),
        "level": level,
        "coverage": {
            "obligations": n_obl,
            "discharged": n_dis,
            "checker_cmd": f"./vc check {pid} --tier {tier}",
            "trusted_base": trusted,
            "functions_under_contract": [r.source for _, r in results if r.source],
            "functions_inlined": sorted({i for _, r in results for i in r.inlined}),
            "paths": sum(r.paths for _, r in results),
            "by_backend": dict(by_backend),
            "by_kind": dict(Counter(o.kind.split(".")[0] if o.kind.startswith("inv") else o.kind for o in all_obs)),
            "solver_time_s": {"sum": round(sum(o.time for o in all_obs), 3), "max": round(max([o.time for o in all_obs] or [0]), 3)},
            "generation_time_s": round(t_gen, 3),
            "samples": samples or [{"bounded_report": r.get("function"), "bound": r.get("bound"), "evaluations": r.get("evaluations")} for r in bounded_reports],
            "extraction_drops": sorted({d for _, r in results for d in r.drops} | {"type annotations", "docstrings and comments"}),
            "undecided": undecided,
            "checker_failures": crashes,
            "bounded": bounded_reports,
            **({"evaluations": b_evals, "distinct_nontrivial": b_distinct,
                "rule": "bounded stand-ins: seeded random generation within the bound stated by each report; a case is distinct when its "
                        "generated input (listing / history / operation sequence) differs, as counted by the generator",
                } if bounded_reports else {}),
            "known_findings": [h["id"] for h, _, _ in known_hits],
            "violations": [o.oid for o, _, _ in violations],
            "explanation": "obligations generated from the AST of the real functions in /repo/src and discharged by z3/cvc5; "
            "discharged < obligations means a known finding, a violation or an undecided obligation (listed)",
        },
        "assumptions": sorted(set(trusted) | {"no-unlisted-exceptions", "no aliasing between value-modelled mutable containers", "termination not proved"}),
        "wall_s": round(time.time() - t_start, 3),
        "violations": len(violations),
    }
    evdir = os.environ.get("PYVC_EVIDENCE_DIR") or os.path.join(VERIF, "evidence")
    os.makedirs(evdir, exist_ok=True)
    json.dump(ev, open(os.path.join(evdir, f"{pid}.json"), "w"), indent=1)
    # ---- output ----
    print(f"[{pid}] functions={len(results)} obligations={n_obl} discharged={n_dis} undecided={len(undecided)} "
          f"violations={len(violations)} known={len(known_hits)} gen={t_gen:.1f}s wall={time.time() - t_start:.1f}s", file=out)
    seen = set()
    for h, ob, fname in known_hits:
        if h["id"] not in seen:
            seen.add(h["id"])
            print(f"KNOWN-FINDING: property={pid} {h['id']}: {h['what']}", file=out)
    for u in undecided:
        print(f"UNDECIDED: {u}", file=out)
    for c in crashes:
        print(f"CHECKER-FAILURE: {c}", file=out)
    for ob, rep, fname in violations:
        tail = "" if rep.get("reproduced") else " no-failing-input-found"
        print(f"  failed obligation {ob.oid} ({ob.note})", file=out)
        print(f"VIOLATION property={pid} replay={fname}{tail}", file=out)
    if os.environ.get("PYVC_WRITE_LEDGER"):
        import fcntl

        with open(lp + ".lock", "w") as lock:  # checks run in parallel: re-read under a lock so that no entry is lost
            fcntl.flock(lock, fcntl.LOCK_EX)
            ledger = json.load(open(lp)) if os.path.exists(lp) else {}
            ledger[pid] = {con.qualname: {"obligations": len(r.obligations), "all_discharged": bool(r.obligations) and all(o.result == "unsat" for o in r.obligations) and not r.undecided}
                           for con, r in results}
            json.dump(ledger, open(lp, "w"), indent=1, sort_keys=True)
    if violations:
        return 1
    if crashes:
        return 3
    if undecided:
        return 2
    return 0
