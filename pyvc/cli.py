import argparse
import os
import sys


def main():
    ap = argparse.ArgumentParser(prog="vc")
    sub = ap.add_subparsers(dest="cmd", required=True)
    c = sub.add_parser("check")
    c.add_argument("pid")
    c.add_argument("--tier", default=os.environ.get("VERIF_TIER", "quick"))
    sub.add_parser("list")
    a = ap.parse_args()
    seed = int(os.environ.get("VERIF_SEED", "0") or 0)
    if a.cmd == "check":
        from .run import check_property

        try:
            rc = check_property(a.pid, a.tier, seed)
        except Exception:  # noqa: BLE001
            import traceback

            traceback.print_exc()
            print("CHECKER-FAILURE: crash in the checker", flush=True)
            rc = 3
        sys.exit(rc)
    if a.cmd == "list":
        from .contracts import REG
        from .run import load_contracts

        load_contracts()
        for q, con in sorted(REG.by_name.items()):
            print(("assumed " if con.assumed else "verify  "), q, con.props)


if __name__ == "__main__":
    main()
