"""Specification functions shared by the code's encoding and the contracts.

String/bytes library functions are uninterpreted spec functions; the instance
facts added here are assumptions about CPython (cross-checked natively by
`vc crosscheck`).  Every fact added is recorded in engine.spec_facts.
"""
from __future__ import annotations

import z3

from .types import (
    SV,
    TBool,
    TBytes,
    TInt,
    TMap,
    TOpt,
    TSeq,
    TSet,
    TStr,
    TTuple,
    Unsupported,
    _san,
    canon,
    lift,
)

_fn_cache = {}


def ufn(name, *sorts):
    k = (name,) + tuple(str(s) for s in sorts)
    if k not in _fn_cache:
        _fn_cache[k] = z3.Function(name, *sorts)
    return _fn_cache[k]


# ---------------- cardinality ----------------
def card(engine, s: SV) -> SV:
    f = ufn("card_" + _san(s.ty.name), s.ty.sort(), z3.IntSort())
    r = SV(f(s.t), TInt)
    engine.spec_fact("card>=0", r.t >= 0)
    engine.spec_fact("card=0 iff empty", (r.t == 0) == (s.t == z3.EmptySet(s.ty.elem.sort())))
    return r


def card_fn(ty):
    return ufn("card_" + _san(ty.name), ty.sort(), z3.IntSort())


# ---------------- set <-> seq ----------------
def seq_to_set(engine, q: SV) -> SV:
    """set(list): membership = occurrence"""
    sty = TSet(q.ty.elem)
    f = ufn("toset_" + _san(q.ty.name), q.ty.sort(), sty.sort())
    r = SV(f(q.t), sty)
    x = z3.Const("x!ts", q.ty.elem.sort())
    engine.spec_fact(
        "set(seq) membership",
        z3.ForAll([x], z3.IsMember(x, r.t) == z3.Contains(q.t, z3.Unit(x)), patterns=[z3.IsMember(x, r.t)]),
    )
    return r


def set_to_seq(engine, s: SV) -> SV:
    """list(set): a duplicate-free enumeration in an arbitrary but fixed order"""
    qty = TSeq(s.ty.elem)
    f = ufn("enum_" + _san(s.ty.name), s.ty.sort(), qty.sort())
    r = SV(f(s.t), qty)
    x = z3.Const("x!e", s.ty.elem.sort())
    engine.spec_fact("list(set) membership", z3.ForAll([x], z3.IsMember(x, s.t) == z3.Contains(r.t, z3.Unit(x))))
    engine.spec_fact("list(set) length", z3.Length(r.t) == card_fn(s.ty)(s.t))
    return r


def pairs_to_map(engine, q):
    raise Unsupported("dict(seq of pairs)")


def map_items(engine, m):
    raise Unsupported("dict.items() on a symbolic map (iterate the map and index it instead)")


def map_values(engine, m):
    raise Unsupported("dict.values() on a symbolic map")


def map_update(m: SV, o: SV) -> SV:
    ty = m.ty
    k = z3.Const("k!mu", ty.key.sort())
    dom = z3.SetUnion(ty.dom(m).t, ty.dom(o).t)
    arr = z3.Lambda([k], z3.If(z3.IsMember(k, ty.dom(o).t), z3.Select(ty.arr(o), k), z3.Select(ty.arr(m), k)))
    return ty.mk(dom, arr)


# ---------------- str ----------------
LOWER_CONSTS = {"md5", "md5-dos2unix", "blake3", "sha256", "etag", "checksum"}


def str_lower(engine, s: SV) -> SV:
    f = ufn("str_lower", z3.StringSort(), z3.StringSort())
    r = SV(f(s.t), TStr)
    for c in sorted(LOWER_CONSTS):
        engine.spec_fact(f"lower({c!r})", f(z3.StringVal(c)) == z3.StringVal(c.lower()))
    engine.spec_fact("lower idempotent", f(r.t) == r.t)
    engine.spec_fact("lower keeps length", z3.Length(r.t) == z3.Length(s.t))
    return r


def lower_const_facts(engine, consts):
    f = ufn("str_lower", z3.StringSort(), z3.StringSort())
    for c in consts:
        engine.spec_fact(f"lower({c!r})", f(z3.StringVal(c)) == z3.StringVal(c.lower()))


def str_method(engine, s: SV, name, args, kwargs, node):
    if name == "startswith":
        return SV(z3.PrefixOf(lift(args[0], TStr).t, s.t), TBool)
    if name == "endswith":
        return SV(z3.SuffixOf(lift(args[0], TStr).t, s.t), TBool)
    if name == "lower":
        return str_lower(engine, s)
    if name == "join":
        parts = engine.iterable_view(args[0])
        if isinstance(parts, (tuple, list)):
            acc = None
            for p in parts:
                pv = lift(p, TStr)
                acc = pv if acc is None else acc + s + pv
            return acc if acc is not None else lift("")
        if isinstance(parts, SV) and isinstance(parts.ty, TSeq) and parts.ty.elem == TStr:
            return str_join(engine, s, parts)
    if name == "split" and len(args) == 1:
        return str_split(engine, s, lift(args[0], TStr))
    if name == "format" and isinstance(s, SV) is False:
        pass
    if name == "encode":
        f = ufn("utf8_encode", z3.StringSort(), TBytes.sort())
        return SV(f(s.t), TBytes)
    raise Unsupported(f"str.{name}")


def str_join(engine, sep: SV, parts: SV) -> SV:
    f = ufn("str_join", z3.StringSort(), TSeq(TStr).sort(), z3.StringSort())
    r = SV(f(sep.t, parts.t), TStr)
    return r


def str_split(engine, s: SV, sep: SV) -> SV:
    f = ufn("str_split", z3.StringSort(), z3.StringSort(), TSeq(TStr).sort())
    j = ufn("str_join", z3.StringSort(), TSeq(TStr).sort(), z3.StringSort())
    r = SV(f(s.t, sep.t), TSeq(TStr))
    engine.spec_fact("join(split(s,sep),sep)=s", j(sep.t, r.t) == s.t)
    engine.spec_fact("split non-empty", z3.Length(r.t) >= 1)
    return r


# ---------------- bytes ----------------
def bytes_replace_all(a: SV, old: SV, new: SV) -> SV:
    f = ufn("bytes_replace_all", TBytes.sort(), TBytes.sort(), TBytes.sort(), TBytes.sort())
    return SV(f(a.t, old.t, new.t), TBytes)


def bytes_delete(engine, a: SV, chars: SV) -> SV:
    """bytes.translate(None, chars): delete every byte that occurs in chars"""
    f = ufn("bytes_delete", TBytes.sort(), TBytes.sort(), TBytes.sort())
    r = SV(f(a.t, chars.t), TBytes)
    engine.spec_fact("translate-delete shrinks", z3.Length(r.t) <= z3.Length(a.t))
    return r


def bytes_method(engine, s: SV, name, args, kwargs, node):
    if name == "replace" and len(args) == 2:
        return bytes_replace_all(s, lift(args[0], TBytes), lift(args[1], TBytes))
    if name == "translate" and len(args) == 2 and args[0] is None:
        return bytes_delete(engine, s, lift(args[1], TBytes))
    if name == "startswith":
        return SV(z3.PrefixOf(lift(args[0], TBytes).t, s.t), TBool)
    if name == "endswith":
        return SV(z3.SuffixOf(lift(args[0], TBytes).t, s.t), TBool)
    if name == "isascii" and not args:
        # every byte is below 0x80 (an opaque predicate with exactly that meaning, instantiated for the empty string)
        f = ufn("bytes_isascii", s.t.sort(), z3.BoolSort())
        i = z3.Const(f"i!asc{engine.fresh_id()}", z3.IntSort())
        elem = s[SV(i, TInt)]
        try:
            below = z3.ULT(elem.t, z3.BitVecVal(128, elem.t.size()))
        except Exception:  # noqa: BLE001  (bytes modelled as integers)
            below = elem.t < 128
        engine.st.pc.append(f(s.t) == z3.ForAll([i], z3.Implies(z3.And(i >= 0, i < z3.Length(s.t)), below)))
        return SV(f(s.t), TBool)
    raise Unsupported(f"bytes.{name}")


# ---------------- comprehensions over symbolic collections ----------------
def comprehension(engine, e, kind, g, it: SV):
    """{f(x) for x in C if c(x)} over a symbolic Seq/Set: result characterised by two quantified facts."""
    import ast

    if kind not in ("set", "gen", "list"):
        raise Unsupported("dict comprehension over a symbolic collection")
    if isinstance(it.ty, TMap):
        it = it.ty.dom(it)
    if isinstance(it.ty, TSeq):
        i = z3.Const(f"i!c{engine.fresh_id()}", z3.IntSort())
        x = it[SV(i, TInt)]
        guard = z3.And(i >= 0, i < z3.Length(it.t))
        bound = [i]
    elif isinstance(it.ty, TSet):
        xv = it.ty.elem.fresh("x!c")
        x = xv
        guard = z3.IsMember(xv.t, it.t)
        bound = [xv.t]
    else:
        raise Unsupported(f"comprehension over {it.ty}")
    n = len(engine.st.pc)
    engine.st.pc.append(guard)
    engine.frames.append({})
    try:
        engine.assign(g.target, x)
        cond = z3.BoolVal(True)
        for c in g.ifs:
            t = engine.truth(engine.eval(c))
            t = lift(t, TBool)
            cond = z3.And(cond, t.t)
            engine.st.pc.append(t.t)
        val = engine.eval(e.elt)
        val = val if isinstance(val, SV) else lift(val)
    finally:
        engine.frames.pop()
        del engine.st.pc[n:]
    if kind == "list" or (kind == "gen" and isinstance(it.ty, TSeq) and not g.ifs and engine.want_seq_comprehension):
        if g.ifs or not isinstance(it.ty, TSeq):
            raise Unsupported("filtered list comprehension over a symbolic sequence")
        qty = TSeq(val.ty)
        q = qty.fresh("comp")
        engine.spec_fact("list-comp length", z3.Length(q.t) == z3.Length(it.t), defn=True)
        engine.spec_fact("list-comp elements", z3.ForAll(bound, z3.Implies(guard, q.t[bound[0]] == val.t)), defn=True)
        return q
    sty = TSet(val.ty)
    key = comp_key_of(e.elt, g.target, g.ifs)
    if key is not None:
        # interned: the same comprehension text in the code and in a contract is the same spec function
        f = ufn(f"setcomp_{key}_{_san(it.ty.name)}", it.ty.sort(), sty.sort())
        r = SV(f(it.t), sty)
    else:
        r = sty.fresh("comp")
    cv = canon(val)
    y = z3.Const(f"y!c{engine.fresh_id()}", val.ty.sort())
    engine.spec_fact("set-comp includes images", z3.ForAll(bound, z3.Implies(z3.And(guard, cond), z3.IsMember(cv.t, r.t))), defn=True)
    if key is None or engine.comp_only_images:
      engine.spec_fact(
        "set-comp only images",
        z3.ForAll([y], z3.Implies(z3.IsMember(y, r.t), z3.Exists(bound, z3.And(guard, cond, y == cv.t)))),
        defn=True,
      )
    return r


def comp_key_of(elt, target, ifs):
    """normalised identity of a comprehension body without free variables (None if it has any)"""
    import ast
    import hashlib

    tnames = [n.id for n in ast.walk(target) if isinstance(n, ast.Name)]
    ren = {n: f"_t{i}" for i, n in enumerate(tnames)}
    parts = []
    for node in [elt] + list(ifs):
        for n in ast.walk(node):
            if isinstance(n, ast.Name) and n.id not in ren:
                return None
        txt = ast.dump(node, annotate_fields=False)
        for a, b in ren.items():
            txt = txt.replace(f"Name('{a}'", f"Name('{b}'")
        parts.append(txt)
    # position of the names inside the target matters ((_, _, oid) vs (_, oid))
    shape = ast.dump(target, annotate_fields=False)
    for a, b in ren.items():
        shape = shape.replace(f"Name('{a}'", f"Name('{b}'")
    return hashlib.sha1(("|".join(parts) + "#" + shape).encode()).hexdigest()[:10]


def setcomp(src: str, seq: SV, result_elem_ty) -> SV:
    """the interned spec function of a comprehension written as source text, e.g.
    setcomp("oid for _, _, oid in X", entries, HashInfo) -- for use in contracts"""
    import ast

    g = ast.parse("{" + src + "}", mode="eval").body
    key = comp_key_of(g.elt, g.generators[0].target, g.generators[0].ifs)
    sty = TSet(result_elem_ty)
    f = ufn(f"setcomp_{key}_{_san(seq.ty.name)}", seq.ty.sort(), sty.sort())
    return SV(f(seq.t), sty)


def list_elems(L: SV) -> SV:
    """set of the elements of a TList (ghost view; facts are added where lists are built)"""
    sty = TSet(L.ty.elem)
    f = ufn("elems_" + _san(L.ty.name), L.ty.sort(), sty.sort())
    return SV(f(L.t), sty)
