"""Built-in functions and methods of built-in types (mixin)."""
from __future__ import annotations

import ast

import z3

from .engine import BoundMethod, ClassVal, Closure, PairList, SDict
from .source import Extern, FuncDef
from .state import RaiseEx
from .types import (
    SV,
    TBool,
    TBytes,
    TInt,
    TList,
    TMap,
    TOMap,
    TOpt,
    TReal,
    TRec,
    TRef,
    TSeq,
    TSet,
    TStr,
    TTuple,
    Ite,
    Unsupported,
    canon,
    lift,
)
from . import specfn


def builtin(fn):
    fn._pyvc_builtin = True
    return fn


class CtxMgr:
    def __init__(self, value=None, suppress=None):
        self.value = value
        self.suppress = suppress


class BuiltinMixin:
    def builtin(self, name):
        f = getattr(self, "bi_" + name, None)
        if f is None:
            if name in EXC_NAMES:
                return ("exc", name)
            return None

        def call(engine, args, kwargs, node, _f=f):
            return _f(args, kwargs, node)

        call._pyvc_builtin = True
        call._pytype = {"str": str, "int": int, "bool": bool, "bytes": bytes, "float": float, "tuple": tuple, "list": list,
                        "dict": dict, "set": set, "frozenset": frozenset}.get(name)
        return call

    # ---------------- functions ----------------
    def bi_len(self, args, kwargs, node):
        (v,) = args
        from .omap import View

        if isinstance(v, View):
            return v.n
        if isinstance(v, SV) and isinstance(v.ty, TOMap):
            return v.length()
        if isinstance(v, (tuple, list, str, bytes)):
            return len(v)
        if isinstance(v, PairList):
            return len(v.pairs)
        if isinstance(v, SDict):
            if all(z3.is_true(z3.simplify(p)) for p, _ in v.items.values()):
                return len(v.items)
            acc = lift(0)
            for p, _ in v.items.values():
                acc = acc + SV(z3.If(p, 1, 0), TInt)
            return acc
        if isinstance(v, SV):
            if isinstance(v.ty, TOpt):
                self.oblige("attr", v.ty.is_some(v), node, "len(None)")
                self.assume(v.ty.is_some(v))
                v = v.ty.val(v)
            if isinstance(v.ty, (TSeq, TList)) or v.ty == TStr:
                return v.length()
            if isinstance(v.ty, (TSet, TMap)):
                s = v if isinstance(v.ty, TSet) else v.ty.dom(v)
                return specfn.card(self, s)
            if isinstance(v.ty, (TRec, TRef)):
                m = self.find_method_for_type(v.ty, "__len__")
                if m:
                    return self.call_function(m[0], [v], {}, node, cls=m[1])
        raise Unsupported(f"len of {v!r}")

    def bi_bool(self, args, kwargs, node):
        return self.truth(args[0]) if args else False

    def bi_isinstance(self, args, kwargs, node):
        v, cls = args
        classes = cls if isinstance(cls, (tuple, list)) else [cls]
        res = False
        for c in classes:
            r = self._isinstance1(v, c)
            if r is True:
                return True
            if r is not False:
                res = r if res is False else (res | r)
        return res

    def _isinstance1(self, v, c):
        pyty = getattr(c, "_pytype", None)
        if isinstance(v, SV) and isinstance(v.ty, TOpt):
            inner = self._isinstance1(v.ty.val(v), c)
            if inner is False:
                return False
            some = v.ty.is_some(v)
            return some if inner is True else (some & inner)
        if pyty is not None:
            if isinstance(v, SV):
                m = {str: (TStr,), int: (TInt, TBool), bool: (TBool,), bytes: (TBytes,), float: (TReal,)}
                if pyty in m:
                    return v.ty in m[pyty]
                if pyty in (tuple, list):
                    return isinstance(v.ty, (TSeq, TTuple)) and v.ty != TBytes
                if pyty is dict:
                    return isinstance(v.ty, TMap)
                if pyty in (set, frozenset):
                    return isinstance(v.ty, TSet)
                return False
            if isinstance(v, SDict):
                return pyty is dict
            return isinstance(v, pyty)
        if isinstance(c, Extern) and c.dotted.endswith("LocalFileSystem"):
            if isinstance(v, SV) and isinstance(v.ty, TRef) and v.ty.field_owner("is_local"):
                return self.heap_get(v, "is_local")
        if isinstance(c, ClassVal):
            if isinstance(v, SV) and isinstance(v.ty, TRec):
                return v.ty.name == c.cdef.name
            if isinstance(v, SV) and isinstance(v.ty, TRef):
                if v.ty.isa(c.cdef.name):
                    return True
                sub = TRef.registry.get(c.cdef.name)
                if sub is not None and sub.isa(v.ty.cls):
                    # dynamic class may be the subclass
                    subs = [t.cls for t in TRef.registry.values() if t.isa(c.cdef.name)]
                    return SV(z3.Or(*[self.dyn_class_is(v, s).t for s in subs]), TBool)
                return False
            return False
        raise Unsupported(f"isinstance(_, {c!r})")

    def bi_set(self, args, kwargs, node):
        if not args:
            return _EmptySet()
        v = self.iterable_view(args[0])
        if isinstance(v, SV):
            if isinstance(v.ty, TSet):
                return v
            if isinstance(v.ty, TMap):
                return v.ty.dom(v)
            if isinstance(v.ty, TSeq):
                return specfn.seq_to_set(self, v)
        if isinstance(v, _EmptySet):
            return v
        if isinstance(v, (tuple, list)):
            if not v:
                return _EmptySet()
            first = v[0] if isinstance(v[0], SV) else lift(v[0])
            s = TSet(first.ty).empty()
            for x in v:
                s = s.add(x)
            return s
        raise Unsupported(f"set({v!r})")

    bi_frozenset = bi_set

    def bi_dict(self, args, kwargs, node):
        if not args:
            return SDict({k: (z3.BoolVal(True), v) for k, v in kwargs.items()})
        v = args[0]
        from .omap import View

        if isinstance(v, SV) and isinstance(v.ty, TOMap):
            return v
        if isinstance(v, View):
            v = self.list_of_view(v)
        if isinstance(v, SV) and isinstance(v.ty, TList):
            return self.omap_from_pairs(v)
        if isinstance(v, SDict):
            return v.copy()
        if isinstance(v, SV) and isinstance(v.ty, TMap):
            return v
        v = self.iterable_view(v)
        if isinstance(v, (tuple, list)):
            d = SDict()
            m = None
            for kv in v:
                k, x = self.unpack(kv, 2, node)
                if isinstance(k, SV):
                    xv = x if isinstance(x, SV) else lift(x)
                    if m is None:
                        m = TMap(k.ty, xv.ty).empty()
                    m = self.map_store(m, k, xv)
                else:
                    d.items[k] = (z3.BoolVal(True), x)
            if m is not None:
                if d.items:
                    raise Unsupported("dict() mixing constant and symbolic keys")
                return m
            return d
        if isinstance(v, SV) and isinstance(v.ty, TSeq) and isinstance(v.ty.elem, TTuple) and len(v.ty.elem.elems) == 2:
            return specfn.pairs_to_map(self, v)
        raise Unsupported(f"dict({v!r})")

    def bi_list(self, args, kwargs, node):
        if not args:
            return []
        from .omap import View

        if isinstance(args[0], SV) and isinstance(args[0].ty, TOMap):
            return args[0].ty.keys(args[0])
        if isinstance(args[0], SV) and isinstance(args[0].ty, TList):
            return args[0]
        if isinstance(args[0], View):
            return self.list_of_view(args[0])
        v = self.iterable_view(args[0])
        if isinstance(v, (tuple, list)):
            return list(v)
        if isinstance(v, SV) and isinstance(v.ty, TSeq):
            return v
        if isinstance(v, SV) and isinstance(v.ty, (TSet, TMap)):
            s = v if isinstance(v.ty, TSet) else v.ty.dom(v)
            return specfn.set_to_seq(self, s)
        raise Unsupported(f"list({v!r})")

    def bi_tuple(self, args, kwargs, node):
        r = self.bi_list(args, kwargs, node)
        return tuple(r) if isinstance(r, list) else r

    def bi_sorted(self, args, kwargs, node):
        v = self.iterable_view(args[0])
        key = kwargs.get("key")
        if isinstance(v, (tuple, list)) and all(not isinstance(x, SV) for x in v) and key is None:
            return sorted(v)
        raise Unsupported("sorted() needs a contract (ext:sorted)")

    def bi_zip(self, args, kwargs, node):
        vs = [self.iterable_view(a) for a in args]
        if all(isinstance(v, (tuple, list)) for v in vs):
            return [tuple(t) for t in zip(*vs)]
        views = [self.as_view(v) for v in vs]
        if all(w is not None for w in views):
            return self.zip_views(views)
        raise Unsupported("zip over symbolic sequences")

    def bi_range(self, args, kwargs, node):
        if all(isinstance(a, int) for a in args):
            return list(range(*args))
        from .omap import View

        if len(args) in (1, 2):
            lo = lift(0 if len(args) == 1 else args[0], TInt)
            hi = lift(args[-1], TInt)
            n = SV(z3.If(hi.t - lo.t > 0, hi.t - lo.t, z3.IntVal(0)), TInt)
            return View(n, lambda i, lo=lo: lo + i, "range")
        raise Unsupported("range with a step")

    def bi_str(self, args, kwargs, node):
        if not args:
            return ""
        return self.to_str(args[0])

    def bi_int(self, args, kwargs, node):
        v = args[0]
        if isinstance(v, SV) and v.ty == TInt:
            return v
        if isinstance(v, SV) and v.ty == TBool:
            return lift(v, TInt)
        if not isinstance(v, SV):
            return int(v)
        raise Unsupported(f"int({v!r})")

    def bi_round(self, args, kwargs, node):
        if len(args) != 1:
            raise Unsupported("round(x, ndigits)")
        v = args[0]
        if not isinstance(v, SV):
            return round(v)
        if v.ty == TInt:
            return v
        x = lift(v, TReal)
        r = TInt.fresh("round")
        d = z3.ToReal(r.t) - x.t
        # round-half-even over the rationals (float arithmetic treated as exact: stated assumption)
        self.st.pc.append(z3.And(d <= z3.RealVal("1/2"), d >= z3.RealVal("-1/2"),
                                 z3.Implies(z3.Or(d == z3.RealVal("1/2"), d == z3.RealVal("-1/2")), r.t % 2 == 0)))
        return r

    def bi_float(self, args, kwargs, node):
        v = args[0]
        if isinstance(v, SV):
            return lift(v, TReal)
        return lift(v, TReal)

    def bi_any(self, args, kwargs, node):
        v = self.iterable_view(args[0])
        if isinstance(v, (tuple, list)):
            acc = False
            for x in v:
                t = self.truth(x)
                if t is True:
                    return True
                if t is not False:
                    acc = t if acc is False else (acc | t)
            return acc
        q = self._quantified_truth(args[0])
        if q is not None:
            i, rng, t = q
            return SV(z3.Exists([i], z3.And(rng, t)), TBool)
        raise Unsupported("any() over symbolic")

    def bi_all(self, args, kwargs, node):
        v = self.iterable_view(args[0])
        if isinstance(v, (tuple, list)):
            acc = True
            for x in v:
                t = self.truth(x)
                if t is False:
                    return False
                if t is not True:
                    acc = t if acc is True else (acc & t)
            return acc
        q = self._quantified_truth(args[0])
        if q is not None:
            i, rng, t = q
            return SV(z3.ForAll([i], z3.Implies(rng, t)), TBool)
        raise Unsupported("all() over symbolic")

    def _quantified_truth(self, v):
        """(i, 0 <= i < len(v), truth(v[i])) for a symbolic list of booleans"""
        if isinstance(v, SV) and isinstance(v.ty, TList) and v.ty.elem == TBool:
            i = z3.Int(f"i!q{self.fresh_id()}")
            return i, z3.And(i >= 0, i < v.length().t), v[SV(i, TInt)].t
        return None

    def bi_getattr(self, args, kwargs, node):
        obj, name = args[0], args[1]
        if isinstance(name, str):
            try:
                return self.get_attr(obj, name, node)
            except (Unsupported, AttributeError):
                if len(args) > 2:
                    return args[2]
                raise
        if isinstance(obj, Extern):
            h = self.extern_handler("getattr:" + obj.dotted)
            if h is not None:
                return h(self, args, kwargs, node, None)
        if isinstance(name, SV) and name.ty == TStr and isinstance(obj, SV) and isinstance(obj.ty, TOpt) and isinstance(obj.ty.elem, (TRec, TRef)):
            self.oblige("attr", obj.ty.is_some(obj), node, "getattr(None, <name>)")
            self.assume(obj.ty.is_some(obj))
            obj = obj.ty.val(obj)
        if isinstance(name, SV) and name.ty == TStr and isinstance(obj, SV) and isinstance(obj.ty, TRec):
            # getattr(record, <symbolic name>, default): a case split over the optional TEXT fields of the record; that the name is
            # not the name of a field of another type is an obligation (the contract's precondition has to provide it)
            from .types import TOpt as _TOpt

            oty = _TOpt(TStr)
            text = [f for f, t in obj.ty.fields.items() if isinstance(t, _TOpt) and t.elem == TStr]
            other = [f for f in obj.ty.fields if f not in text]
            no_other = lift(True, TBool)
            for f in other:
                no_other = no_other & ~(name == f)
            self.oblige("attr", no_other, node, "getattr with a symbolic name must not name a non-text field")
            self.assume(no_other)
            default = args[2] if len(args) > 2 else None
            if default is not None and not (isinstance(default, SV) and default.ty == oty):
                raise Unsupported("getattr with symbolic name: default other than None")
            r = oty.none() if default is None else default
            for f in text:
                r = Ite(name == f, obj.ty.get(obj, f), r)
            return r
        if isinstance(name, SV) and name.ty == TStr and isinstance(obj, SV) and isinstance(obj.ty, TRef):
            return DynAttr(obj, name)
        raise Unsupported("getattr with symbolic name")

    def bi_hasattr(self, args, kwargs, node):
        obj, name = args
        if isinstance(name, str) and isinstance(obj, SV) and isinstance(obj.ty, (TRec, TRef)):
            if isinstance(obj.ty, TRec) and name in obj.ty.fields:
                return True
            if isinstance(obj.ty, TRef) and obj.ty.field_owner(name):
                return True
            return self.find_method_for_type(obj.ty, name) is not None
        if isinstance(name, SV) and name.ty == TStr and isinstance(obj, SV) and isinstance(obj.ty, TRef):
            # whether an object of an external class has an attribute of a symbolic name: an uninterpreted predicate
            f = specfn.ufn("has_attr_" + obj.ty.cls, z3.IntSort(), z3.StringSort(), z3.BoolSort())
            return SV(f(obj.t, name.t), TBool)
        raise Unsupported("hasattr")

    def bi_cast(self, args, kwargs, node):
        return args[1]

    def bi_print(self, args, kwargs, node):
        return None

    def bi_sum(self, args, kwargs, node):
        """sum of a concrete sequence is computed; of a symbolic collection it is an unconstrained integer
        (over-approximation: nothing under contract depends on the value)"""
        (v,) = args
        if isinstance(v, (tuple, list)):
            acc = lift(0)
            for x in v:
                acc = acc + x
            return acc
        self.res.drops.add("sum() over a symbolic collection = unconstrained integer")
        return TInt.fresh("sum")

    def bi_min(self, args, kwargs, node):
        a, b = args
        if not isinstance(a, SV) and not isinstance(b, SV):
            return min(a, b)
        a2, b2 = lift(a, TInt), lift(b, TInt)
        return SV(z3.If(a2.t <= b2.t, a2.t, b2.t), TInt)

    def bi_max(self, args, kwargs, node):
        a, b = args
        if not isinstance(a, SV) and not isinstance(b, SV):
            return max(a, b)
        a2, b2 = lift(a, TInt), lift(b, TInt)
        return SV(z3.If(a2.t >= b2.t, a2.t, b2.t), TInt)

    def bi_bytes(self, args, kwargs, node):
        v = args[0]
        if isinstance(v, list) and all(isinstance(x, int) for x in v):
            return bytes(v)
        raise Unsupported("bytes()")

    # ---------------- iteration helpers ----------------
    def iterable_view(self, v):
        """normalise an iterable: concrete list/tuple, or SV Seq/Set/Map"""
        from .omap import View

        if isinstance(v, (tuple, list, View)):
            return v
        if isinstance(v, SV) and isinstance(v.ty, TOMap):
            return v.ty.keys(v)
        if isinstance(v, _EmptySet):
            return ()
        if isinstance(v, SDict):
            if all(z3.is_true(z3.simplify(p)) for p, _ in v.items.values()):
                return list(v.items.keys())
            raise Unsupported("iteration over dict with conditional keys")
        if isinstance(v, SV):
            if isinstance(v.ty, (TSeq, TSet, TMap, TList)) or v.ty == TStr:
                return v
            if isinstance(v.ty, TOpt):
                raise Unsupported("iteration over optional")
            if isinstance(v.ty, (TRec, TRef)):
                m = self.find_method_for_type(v.ty, "__iter__")
                if m:
                    return self.iterable_view(self.call_function(m[0], [v], {}, None, cls=m[1]))
        if isinstance(v, (str, bytes)):
            return v
        raise Unsupported(f"iteration over {v!r}")

    def enter_context(self, cm, node):
        if isinstance(cm, CtxMgr):
            return cm.value
        if isinstance(cm, SV):
            if isinstance(cm.ty, TOpt):
                # nullcontext(None)-like optional callbacks
                return cm
            return cm
        if cm is None:
            return None
        raise Unsupported(f"with {cm!r}")

    def symbolic_comprehension(self, e, kind, g, it):
        return specfn.comprehension(self, e, kind, g, it)

    # ---------------- methods of built-in types ----------------
    def builtin_method(self, selfv, name, args, kwargs, node, self_expr):
        if isinstance(selfv, PairList):
            if name == "items":
                return [(k, v) for k, v in selfv.pairs]
            if name == "keys":
                return [k for k, _ in selfv.pairs]
            if name == "values":
                return [v for _, v in selfv.pairs]
            raise Unsupported(f"dict.{name} on a symbolic-key literal")
        if isinstance(selfv, SDict):
            return self.sdict_method(selfv, name, args, kwargs, node, self_expr)
        if isinstance(selfv, _EmptySet):
            return self.emptyset_method(selfv, name, args, node, self_expr)
        if isinstance(selfv, list):
            return self.list_method(selfv, name, args, node, self_expr)
        if isinstance(selfv, str) and name == "format" and selfv.count("{}") == len(args) and not kwargs:
            parts = selfv.split("{}")
            acc = parts[0]
            for a, p_ in zip(args, parts[1:]):
                acc = self.binop("Add", self.binop("Add", acc, self.to_str(a), node), p_, node)
            return acc
        if isinstance(selfv, (str, bytes, tuple)) and not any(isinstance(a, SV) for a in args) and not kwargs:
            if isinstance(selfv, str) and name == "join":
                parts = self.iterable_view(args[0])
                if isinstance(parts, (tuple, list)) and all(isinstance(p, str) for p in parts):
                    return selfv.join(parts)
            else:
                try:
                    return getattr(selfv, name)(*args)
                except (TypeError, AttributeError):
                    pass
        if isinstance(selfv, (str, bytes, tuple)):
            selfv = lift(selfv)
        if isinstance(selfv, SV):
            ty = selfv.ty
            if isinstance(ty, TRec) and getattr(ty, "dictlike", False):
                return self.dictrec_method(selfv, name, args, kwargs, node)
            if ty == TStr:
                return specfn.str_method(self, selfv, name, args, kwargs, node)
            if ty == TBytes:
                return specfn.bytes_method(self, selfv, name, args, kwargs, node)
            if isinstance(ty, TSet):
                return self.set_method(selfv, name, args, node, self_expr)
            if isinstance(ty, TMap):
                return self.map_method(selfv, name, args, kwargs, node, self_expr)
            if isinstance(ty, TSeq):
                return self.seq_method(selfv, name, args, kwargs, node, self_expr)
            if isinstance(ty, TOMap):
                if name == "items":
                    return self.items_view(selfv)
                if name == "keys":
                    return ty.keys(selfv)
                if name == "values":
                    return self.values_view(selfv)
                if name == "copy":
                    return selfv
                if name == "get":
                    k = self._elem(args[0], ty.key)
                    present = self.omap_dom(selfv).contains(k)
                    default = args[1] if len(args) > 1 else None
                    if default is None:
                        o = TOpt(ty.val)
                        return SV(z3.If(present.t, o.some(ty.at(selfv, k)).t, o.none().t), o)
                    return SV(z3.If(present.t, ty.at(selfv, k).t, self.coerce(default, ty.val).t), ty.val)
                if name == "update":
                    o = args[0]
                    if isinstance(o, SDict) and not o.items:
                        return None
                    if isinstance(o, SV) and o.ty == ty:
                        self._rebind(self_expr, self.omap_update(selfv, o), node)
                        return None
                raise Unsupported(f"dict.{name} on an ordered symbolic dict")
            if isinstance(ty, TList):
                if name == "append":
                    x = self._elem(args[0], ty.elem)
                    new = ty.append(selfv, x)
                    # ghost view elems(): theory-valid by construction of the list
                    self.st.pc.append(specfn.list_elems(new).t == z3.SetAdd(specfn.list_elems(selfv).t, x.t))
                    self._rebind(self_expr, new, node)
                    return None
                if name == "copy":
                    return selfv
        raise Unsupported(f"method {name} of {selfv!r}")

    def dictrec_method(self, d, name, args, kwargs, node):
        """dict API of a record that models a dict with a known set of string keys (every field optional)"""
        ty = d.ty
        if name == "get":
            k = args[0]
            default = args[1] if len(args) > 1 else None
            if not isinstance(k, str):
                raise Unsupported("dict-like record .get with a symbolic key")
            if k not in ty.fields:
                self.res.drops.add(f"key {k!r} of {ty.name} is not modelled: treated as absent")
                return default
            v = ty.get(d, k)
            if default is None:
                return v
            return SV(z3.If(v.ty.is_some(v).t, v.ty.val(v).t, lift(default, v.ty.elem).t), v.ty.elem)
        raise Unsupported(f"{ty.name}.{name}")

    def _rebind(self, self_expr, new, node):
        if self_expr is None:
            raise Unsupported("mutation of a temporary")
        self.assign(_store(self_expr), new)

    def emptyset_method(self, s, name, args, node, self_expr):
        if name == "add":
            x = args[0] if isinstance(args[0], SV) else lift(args[0])
            self._rebind(self_expr, TSet(x.ty).empty().add(x), node)
            return None
        if name == "update":
            v = self.bi_set([args[0]], {}, node)
            self._rebind(self_expr, v, node)
            return None
        raise Unsupported(f"set().{name}")

    def set_method(self, s, name, args, node, self_expr):
        ty = s.ty
        if name == "add":
            self._rebind(self_expr, s.add(self._elem(args[0], ty.elem)), node)
            return None
        if name in ("discard",):
            self._rebind(self_expr, s.remove(self._elem(args[0], ty.elem)), node)
            return None
        if name == "remove":
            x = self._elem(args[0], ty.elem)
            if not self.branch(s.contains(x)):
                raise RaiseEx("KeyError", None, node)
            self._rebind(self_expr, s.remove(x), node)
            return None
        if name in ("update", "union"):
            acc = s
            for a in args:
                acc = acc.union(self._as_set(a, ty, node))
            if name == "update":
                self._rebind(self_expr, acc, node)
                return None
            return acc
        if name in ("difference", "difference_update"):
            acc = s
            for a in args:
                acc = acc - self._as_set(a, ty, node)
            if name == "difference_update":
                self._rebind(self_expr, acc, node)
                return None
            return acc
        if name in ("intersection", "intersection_update"):
            acc = s
            for a in args:
                acc = acc.inter(self._as_set(a, ty, node))
            if name == "intersection_update":
                self._rebind(self_expr, acc, node)
                return None
            return acc
        if name == "issubset":
            return s.subset(self._as_set(args[0], ty, node))
        if name == "isdisjoint":
            return s.inter(self._as_set(args[0], ty, node)).is_empty()
        if name == "copy":
            return s
        if name == "clear":
            self._rebind(self_expr, ty.empty(), node)
            return None
        raise Unsupported(f"set.{name}")

    def _elem(self, x, ety):
        if isinstance(x, (tuple, list)):
            return self.lift_like(x, ety)
        if isinstance(x, SV) and isinstance(x.ty, TOpt) and not isinstance(ety, TOpt) and x.ty.elem == ety:
            # None would be a different element: require a value (it is an obligation, not an assumption)
            self.oblige("attr", x.ty.is_some(x), self.cur_node, "None stored where a value is required")
            self.assume(x.ty.is_some(x))
            return x.ty.val(x)
        return lift(x, ety)

    def _as_set(self, a, ty, node):
        if isinstance(a, _EmptySet):
            return ty.empty()
        v = self.bi_set([a], {}, node)
        if isinstance(v, _EmptySet):
            return ty.empty()
        if v.ty != ty:
            raise Unsupported(f"set operand of type {v.ty}, expected {ty}")
        return v

    def map_method(self, m, name, args, kwargs, node, self_expr):
        ty = m.ty
        if name == "get":
            k = canon(self._elem(args[0], ty.key))
            default = args[1] if len(args) > 1 else kwargs.get("default")
            present = m.contains(k)
            if default is None:
                o = TOpt(ty.val)
                return SV(z3.If(present.t, o.some(m[k]).t, o.none().t), o)
            d = lift(default, ty.val)
            return SV(z3.If(present.t, m[k].t, d.t), ty.val)
        if name == "keys":
            return ty.dom(m)
        if name == "items":
            return specfn.map_items(self, m)
        if name == "values":
            return specfn.map_values(self, m)
        if name == "pop":
            k = canon(self._elem(args[0], ty.key))
            present = m.contains(k)
            if self.branch(present):
                v = m[k]
                self._rebind(self_expr, ty.mk(z3.SetDel(ty.dom(m).t, k.t), ty.arr(m)), node)
                return v
            if len(args) > 1:
                return args[1]
            raise RaiseEx("KeyError", None, node)
        if name == "update":
            o = args[0]
            if isinstance(o, SV) and o.ty == ty:
                self._rebind(self_expr, specfn.map_update(m, o), node)
                return None
        if name == "copy":
            return m
        if name == "setdefault":
            k = canon(self._elem(args[0], ty.key))
            if self.branch(m.contains(k)):
                return m[k]
            self._rebind(self_expr, self.map_store(m, k, args[1]), node)
            return lift(args[1], ty.val)
        raise Unsupported(f"dict.{name}")

    def sdict_method(self, d, name, args, kwargs, node, self_expr):
        if name == "get":
            k = args[0]
            default = args[1] if len(args) > 1 else None
            if isinstance(k, SV):
                raise Unsupported("constant-key dict .get with symbolic key")
            if k not in d.items:
                return default
            p, v = d.items[k]
            s = z3.simplify(p)
            if z3.is_true(s):
                return v
            if z3.is_false(s):
                return default
            try:
                return self.merge_values(s, v, default)
            except Exception:
                return v if self.branch(SV(s, TBool)) else default
        if name == "items":
            return [(k, v) for k, (p, v) in self._all_present(d)]
        if name == "keys":
            return [k for k, _ in self._all_present(d)]
        if name == "values":
            return [v for k, (p, v) in self._all_present(d)]
        if name == "update":
            o = args[0] if args else SDict()
            new = d.copy()
            if isinstance(o, SDict):
                if not d.items and False:
                    pass
                new.items.update(o.items)
            elif isinstance(o, SV) and isinstance(o.ty, TMap) and not d.items:
                self._rebind(self_expr, o, node)
                return None
            else:
                raise Unsupported("dict.update operand")
            for k, v in kwargs.items():
                new.items[k] = (z3.BoolVal(True), v)
            self._rebind(self_expr, new, node)
            return None
        if name == "setdefault":
            k, v = args
            if isinstance(k, SV):
                raise Unsupported("setdefault symbolic key")
            if k in d.items and z3.is_true(z3.simplify(d.items[k][0])):
                return d.items[k][1]
            new = d.copy()
            new.items[k] = (z3.BoolVal(True), v)
            self._rebind(self_expr, new, node)
            return v
        if name == "pop":
            k = args[0]
            if k in d.items:
                p, v = d.items[k]
                if z3.is_true(z3.simplify(p)):
                    new = d.copy()
                    del new.items[k]
                    self._rebind(self_expr, new, node)
                    return v
            if len(args) > 1 and k not in d.items:
                return args[1]
            raise Unsupported("dict.pop of conditional key")
        if name == "copy":
            return d.copy()
        raise Unsupported(f"dict.{name} (constant keys)")

    def _all_present(self, d):
        out = []
        for k, (p, v) in d.items.items():
            s = z3.simplify(p)
            if z3.is_false(s):
                continue
            if not z3.is_true(s):
                raise Unsupported("iteration over dict with conditional keys")
            out.append((k, (p, v)))
        return out

    def list_method(self, l, name, args, node, self_expr):
        if name == "append":
            self._rebind(self_expr, list(l) + [args[0]], node)
            return None
        if name == "extend":
            v = self.iterable_view(args[0])
            if isinstance(v, (tuple, list)):
                self._rebind(self_expr, list(l) + list(v), node)
                return None
            if isinstance(v, SV) and isinstance(v.ty, TSeq):
                self._rebind(self_expr, lift(tuple(l), v.ty) + v if l else v, node)
                return None
        if name == "pop" and not args and l:
            self._rebind(self_expr, list(l[:-1]), node)
            return l[-1]
        if name == "copy":
            return list(l)
        if name == "index" and not any(isinstance(x, SV) for x in l + list(args)):
            return l.index(args[0])
        raise Unsupported(f"list.{name} on a concrete list")

    def seq_method(self, s, name, args, kwargs, node, self_expr):
        ty = s.ty
        if name == "append":
            x = self._elem(args[0], ty.elem)
            new = SV(z3.Concat(s.t, z3.Unit(x.t)), ty)
            if ty != TStr and ty.elem.name != "Byte":
                # theory-valid lemmas about nth over concat (z3's seq solver does not derive them under quantifiers)
                i = z3.Int("i!app")
                n = z3.Length(s.t)
                self.st.pc.append(z3.Length(new.t) == n + 1)
                self.st.pc.append(new.t[n] == x.t)
                self.st.pc.append(z3.ForAll([i], z3.Implies(z3.And(i >= 0, i < n), new.t[i] == s.t[i]), patterns=[new.t[i]]))
            self._rebind(self_expr, new, node)
            return None
        if name == "appendleft":
            x = self._elem(args[0], ty.elem)
            self._rebind(self_expr, SV(z3.Concat(z3.Unit(x.t), s.t), ty), node)
            return None
        if name == "extend":
            v = self.iterable_view(args[0])
            v = lift(tuple(v), ty) if isinstance(v, (tuple, list)) else v
            self._rebind(self_expr, s + v, node)
            return None
        if name in ("pop", "popleft"):
            n = s.length()
            if not self.branch(n > 0):
                raise RaiseEx("IndexError", None, node)
            if name == "pop" and not args:
                self._rebind(self_expr, SV(z3.Extract(s.t, z3.IntVal(0), n.t - 1), ty), node)
                return s[n - 1]
            if name == "popleft" or (args and args[0] == 0):
                self._rebind(self_expr, SV(z3.Extract(s.t, z3.IntVal(1), n.t - 1), ty), node)
                return s[0]
        if name == "copy":
            return s
        raise Unsupported(f"list.{name}")


class DynAttr:
    """getattr(obj, <symbolic name>) on a heap object of an external class: callable through the contract 'ext:<Cls>.<dynamic>'"""

    def __init__(self, obj, name):
        self.obj, self.name = obj, name


class _EmptySet:
    """set() before its element type is known"""

    def __repr__(self):
        return "set()"


def _store(e):
    t = ast.parse(ast.unparse(e), mode="exec").body[0]
    # build a Store-context copy of the expression
    tgt = ast.parse(ast.unparse(e) + " = 0").body[0].targets[0]
    ast.copy_location(tgt, e)
    for n in ast.walk(tgt):
        if not hasattr(n, "lineno"):
            n.lineno = getattr(e, "lineno", 0)
            n.col_offset = getattr(e, "col_offset", 0)
    return tgt


EXC_NAMES = {
    "Exception", "KeyError", "ValueError", "TypeError", "AttributeError", "OSError", "FileNotFoundError",
    "NotImplementedError", "IndexError", "AssertionError", "FileExistsError", "RuntimeError", "StopIteration",
}
