#!/bin/bash
# run every stored seeded change against the check of the property it breaks; one line per change
OUT=/verif/seeded/RESULTS.tsv
: > $OUT.tmp
for d in /verif/seeded/C*/; do
  id=$(basename $d); pid=${id%-*}
  [ "$pid" = "C16" ] && continue
  res=$(timeout 1500 /verif/tools/trymut.sh $id $pid 2>/dev/null)
  rc=$?
  head1=$(echo "$res" | grep -E "^\[" | head -1)
  nviol=$(echo "$res" | grep -c "^VIOLATION")
  nrep=$(echo "$res" | grep "^VIOLATION" | grep -vc "no-failing-input-found")
  echo -e "$id\t$pid\texit=$rc\tviolation_lines=$nviol\treplayed=$nrep\t$head1" >> $OUT.tmp
done
mv $OUT.tmp $OUT
