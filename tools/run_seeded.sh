#!/bin/bash
# run every stored seeded change against the check of the property it breaks; one line per change
OUT=${OUT:-/verif/seeded/RESULTS.tsv}
: > $OUT.tmp
for id in $(cd /verif/seeded && ls -d ${ONLY:-C*} 2>/dev/null | grep "^C"); do
  pid=${id%-*}
  [ "$pid" = "C16" ] && continue
  res=$(timeout 1500 /verif/tools/trymut.sh $id $pid 2>/dev/null)
  rc=$?
  head1=$(echo "$res" | grep -E "^\[" | head -1)
  nviol=$(echo "$res" | grep -c "^VIOLATION")
  nrep=$(echo "$res" | grep "^VIOLATION" | grep -vc "no-failing-input-found")
  nb=$(echo "$res" | grep "^VIOLATION" | grep -c "replay=replays/[A-Z0-9]*/bounded_")
  obs=$(echo "$res" | grep "^VIOLATION" | grep -v "bounded_" | sed -E 's#.*replay=replays/[A-Z0-9]+/##; s#_[0-9a-f]{8}\.json.*##; s#@L[0-9]+##' | sort -u | tr '\n' ' ')
  echo -e "$id\t$pid\texit=$rc\tviolation_lines=$nviol\treplayed=$nrep\tbounded=$nb\t$head1\t$obs" >> $OUT.tmp
done
mv $OUT.tmp $OUT
