#!/bin/bash
# run every registered quick check on the current tree, in parallel, into a scratch evidence dir unless --write is given
cd /verif
IDS=$(.venv/bin/python -c "import json; print(' '.join(c['property_id'] for c in json.load(open('MANIFEST.json'))['checks']))")
OUT=$(mktemp -d /var/tmp/runall.XXXXXX)
EV="$OUT/ev"; [ "$1" = "--write" ] && EV=""
for p in $IDS; do
  ( PYVC_EVIDENCE_DIR="$EV" PYVC_WRITE_LEDGER="${LEDGER:-}" ./vc check $p --tier "${TIER:-quick}" > $OUT/$p.log 2>&1; echo "$p exit=$? $(grep -E "^\[" $OUT/$p.log | grep -o "wall=[0-9.]*s")" >> $OUT/summary ) &
  while [ $(jobs -r | wc -l) -ge 4 ]; do sleep 0.5; done
done
wait
sort $OUT/summary | tr '\n' ' '; echo
grep -h -E "VIOLATION|UNDECIDED|CHECKER" $OUT/*.log | cut -c1-220 | head -20
rm -rf $OUT
