#!/bin/bash
# Confirm each agent-written change in a scratch worktree: suite passes with it, demo fails with it, demo passes without it.
RAW=${RAW:-/var/tmp/seeded-raw}
WT=/var/tmp/wt-confirm
OUT=/var/tmp/seeded-confirm.tsv
: > $OUT
git -C /repo worktree remove --force $WT 2>/dev/null
git -C /repo worktree add -q --detach $WT HEAD
cd $WT
for id in $(ls $RAW); do for k in 1 2; do
  p=$RAW/$id/patch$k.diff; d=$RAW/$id/demo$k.py
  [ -f $p ] || continue
  git checkout -q -- . ; git clean -qfd
  PYTHONPATH=$WT/src timeout 600 /venv/bin/python $d >/dev/null 2>&1; clean=$?
  if ! git apply $p 2>/dev/null; then echo -e "$id\t$k\tAPPLYFAIL" >> $OUT; continue; fi
  PYTHONPATH=$WT/src timeout 900 /venv/bin/python -m pytest -q -x -p no:cacheprovider tests >/dev/null 2>&1; suite=$?
  PYTHONPATH=$WT/src timeout 600 /venv/bin/python $d >/dev/null 2>&1; mut=$?
  echo -e "$id\t$k\tclean_demo=$clean\tsuite=$suite\tmut_demo=$mut" >> $OUT
done; done
git checkout -q -- . ; cd /; git -C /repo worktree remove --force $WT
echo DONE >> $OUT
