#!/usr/bin/env python3
"""Markdown table of the seeded changes from seeded/RESULTS.tsv (written by tools/run_seeded.sh) + each change's notes."""
import json
import os
import re

V = os.path.dirname(os.path.dirname(os.path.abspath(__file__)))
rows = []
for line in open(os.path.join(V, "seeded", "RESULTS.tsv")):
    p = line.rstrip("\n").split("\t")
    if len(p) < 5:
        continue
    kv = dict(x.split("=", 1) for x in p[2:6] if "=" in x)
    sid, pid = p[0], p[1]
    obs = p[7].strip() if len(p) > 7 else ""
    notes = open(os.path.join(V, "seeded", sid, "notes.md")).read()
    title = re.sub(r"^#+\s*", "", notes.strip().splitlines()[0])
    title = re.sub(r"^(C\d\d\s+)?[Cc]hange \d\s*[—-]\s*", "", title).replace("|", "/")
    patch = open(os.path.join(V, "seeded", sid, "patch.diff")).read()
    files = sorted({re.sub(r"^src/dvc_data/", "", f) for f in re.findall(r"^\+\+\+ b/(\S+)", patch, re.M)})
    meta = json.load(open(os.path.join(V, "seeded", sid, "meta.json")))
    rc = kv.get("exit")
    nv, nb = int(kv.get("violation_lines", 0)), int(kv.get("bounded", 0) or 0)
    if meta.get("status_on_repo_head"):
        how = "— (no longer breaks the property: " + meta["status_on_repo_head"]["neutralised_by"].split(":")[0] + ")"
    elif rc == "1" and nv - nb > 0:
        names = sorted({re.sub(r"^dvc_data\.[a-z_.]*?_(?=[A-Z_a-z]+__)", "", o).replace("__", "#") for o in obs.split()})[:3]
        how = "**proof**: " + ", ".join(f"`{n}`" for n in names) + (" + bounded" if nb else "")
    elif rc == "1" and nb:
        how = "bounded stand-in only"
    elif rc == "1":
        how = "reported (exit 1)"
    else:
        how = f"**not detected** (exit {rc})"
    rows.append(f"| {sid} | `{', '.join(files)}` | {title[:110]} | {how} |")
print("| id | file | change | caught by |")
print("|---|---|---|---|")
print("\n".join(rows))
