#!/bin/bash
# usage: trymut.sh <patch.diff> <pid> [tier]   -- run a check against a scratch copy of /repo/src with the patch applied
set -e
V="$(cd "$(dirname "$0")/.." && pwd)"
P="$1"; [ -f "$P" ] || P="/verif/seeded/$1/patch.diff"; P="$(realpath "$P")"; PID="$2"; TIER="${3:-quick}"
D=$(mktemp -d /var/tmp/mut.XXXXXX)
cp -r /repo/src "$D/src"
( cd "$D" && patch -s -p1 < "$P" )
cd "$V"
set +e
PYVC_EVIDENCE_DIR="$D/evidence" PYVC_REPO_SRC="$D/src" ./vc check "$PID" --tier "$TIER"
rc=$?
rm -rf "$D"
exit $rc
