#!/bin/bash
# does each stored change still break its demo when applied to the CURRENT /repo HEAD?
for d in /verif/seeded/*/; do
  id=$(basename $d); D=$(mktemp -d /var/tmp/mut.XXXXXX); cp -r /repo/src $D/src
  if (cd $D && patch -s -p1 < $d/patch.diff) >/dev/null 2>&1; then
    PYTHONPATH=$D/src timeout 600 /venv/bin/python $d/demo.py >/dev/null 2>&1; rc=$?
    echo "$id demo_exit_on_head_plus_patch=$rc"
  else echo "$id PATCH_DOES_NOT_APPLY"; fi
  rm -rf $D
done
