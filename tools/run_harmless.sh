#!/bin/bash
# every harmless refactor must leave its check at exit 0 (no false alarm on code where the property holds)
cd /verif
rc=0
while read -r id pid; do
  out=$(tools/trymut.sh seeded/harmless/$id.diff $pid 2>/dev/null); r=$?
  echo "$id $pid exit=$r $(echo "$out" | grep -E '^\[' | head -1)"
  [ $r -ne 0 ] && rc=1
done <<'LIST'
rf1 C05
rf2 C04
rf3 C05
rf4 C05
rf5 C06
rf6 C06
rf7 C12
rf8 C10
rf9 C10
rf10 C13
LIST
exit $rc
