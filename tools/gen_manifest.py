#!/usr/bin/env python3
"""Regenerate MANIFEST.json from the claims table below (keeps it valid at all times)."""
import json
import os

HERE = os.path.dirname(os.path.dirname(os.path.abspath(__file__)))
props = [json.loads(l) for l in open(os.path.join(HERE, "properties.jsonl"))]

TECH = "contract-based deductive verification: VCs generated from the AST of the real functions (pyvc), discharged by z3/cvc5"

# pid -> (category, text, level_note, design_ref)
CLAIMS = json.load(open(os.path.join(HERE, "tools", "claims.json")))

NOT_YET = "not yet claimed: contracts for this property are not built yet (framework under construction, see DESIGN.md section 8)"
NA = {
    "C16": "quantifies over schedules (interleavings of threads/processes); contract-based deductive verification as available here is sequential and has no concurrency logic (DESIGN.md section 6)",
}

checks = []
na = []
for p in props:
    pid = p["id"]
    if pid in CLAIMS:
        c = CLAIMS[pid]
        checks.append({
            "property_id": pid,
            "quick_cmd": f"./vc check {pid} --tier quick",
            "thorough_cmd": f"./vc check {pid} --tier thorough",
            "evidence_file": f"/verif/evidence/{pid}.json",
            "replay_cmd_template": "cat {path}",
            "engine": "pyvc",
            "level_claimed": {"category": c["category"], "text": c["text"], "design_ref": c.get("design_ref", "DESIGN.md section 5 " + pid)},
            "level_note": c["level_note"],
            "technique": TECH,
        })
    else:
        na.append({"property_id": pid, "reason": NA.get(pid, NOT_YET)})

m = {
    "version": 1,
    "setup_cmd": "./vc setup",
    "hooks": {
        "guard": "DVC_DATA_VERIF",
        "enable": "none: sidecar contracts, AST extraction from /repo/src (no source hooks)",
        "baseline_off_cmd": "cd /repo && /venv/bin/python -m pytest -ra -q -p no:cacheprovider --timeout=900 --continue-on-collection-errors",
        "source_commits": [],
        "add_only": True,
    },
    "engines": [{"name": "pyvc", "path": "/verif/pyvc", "serves_properties": sorted(CLAIMS), "kind_free_text": "VC generator (symbolic execution of the real Python AST against sidecar contracts, loops cut at invariants, calls replaced by contracts) + z3 5.1 / cvc5 back ends"}],
    "checks": checks,
    "notes": "See DESIGN.md. Exit codes of a check: 0 all obligations discharged; 1 VIOLATION (counter-model, replayed natively where possible); 2 undecided; 3 checker failure.",
    "not_applicable": na,
}
json.dump(m, open(os.path.join(HERE, "MANIFEST.json"), "w"), indent=1)
try:
    import jsonschema

    jsonschema.validate(m, json.load(open("/root/.vp/MANIFEST.schema.json")))
    print("MANIFEST valid;", len(checks), "checks,", len(na), "not applicable")
except ImportError:
    print("written (jsonschema not available to validate)")
