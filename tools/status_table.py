#!/usr/bin/env python3
"""Per-property status table for DESIGN part A, generated from the evidence files of the last run."""
import glob
import json
import os

V = os.path.dirname(os.path.dirname(os.path.abspath(__file__)))
NOT_COVERED = {
    "C01": "`_upload_file`, index save",
    "C02": "`_build_tree`, `Tree.from_list` only inside the round-trip stand-in",
    "C03": "sorting / json canonicity assumed in the proof of `digest`",
    "C04": "`_add` body (closure callback, per-filesystem batches): stand-in only",
    "C05": "the object diff that computes `in_cache`: stand-in only",
    "C06": "–",
    "C07": "`Link.__call__` (refusing to materialise): stand-in only",
    "C08": "traversal and rename pairing: stand-in only",
    "C09": "`_compare`, `apply`: stand-in only",
    "C10": "convergence / idempotence of whole checkouts, unprotect via temp file: stand-in only",
    "C11": "`status`, `_add`: stand-in only",
    "C12": "`status` / `_indexed_dir_hashes`, the lookup strategies inside dvc_objects: stand-in only",
    "C13": "`_get_hashes`, `get_many` / `save_many`, index `update()` / `md5()`: stand-in only",
    "C14": "CRLF/LF lemma assumed; `file_md5` = open + `fobj_md5` (composition assumed)",
    "C15": "crash points inside one dependency call (proof side); whole operations: stand-in only",
    "C17": "everything (level `exploration`): stand-ins only",
    "C18": "`collect`, `push`, `fetch`, `StorageMapping`: stand-ins only",
    "C19": "`_merge` / `merge` (dictdiffer): stand-in only",
    "C20": "json / key-value db / SQLite forms: stand-in only",
}
rows = ["| id | proved (obligations, quick tier) | bounded, never counted (function → script, evaluations) | outside the proofs |", "|---|---|---|---|"]
for p in sorted(glob.glob(os.path.join(V, "evidence", "C*.json"))):
    d = json.load(open(p))
    c = d["coverage"]
    fns = sorted(f["qualname"].split(":")[-1].replace("<harness>", "lemma ") for f in c.get("functions_under_contract", []))
    proved = (", ".join(f"`{f}`" for f in fns) + f" ({c.get('obligations', 0)})") if fns else "– (level `exploration`)"
    bnd = []
    for b in c.get("bounded", []):
        script = b.get("tool", "").split("(")[-1].rstrip(")").replace("bounded/", "")
        bnd.append(f"`{b['function'].split(':')[-1]}` → `{script}` ({b.get('evaluations')})")
    rows.append(f"| {d['property_id']} | {proved} | {'; '.join(bnd) or '–'} | {NOT_COVERED.get(d['property_id'], '')} |")
    if d["property_id"] == "C15":
        rows.append("| C16 | **not applicable** (§6) | | |")
print("\n".join(rows))
