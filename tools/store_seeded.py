#!/usr/bin/env python3
"""Store the confirmed agent-written changes under /verif/seeded/<id>-<k>/ (patch.diff rebased onto /repo HEAD where needed)."""
import json, os, shutil, subprocess, sys
RAW = os.environ.get("RAW", "/var/tmp/seeded-raw")
KOFF = int(os.environ.get("KOFF", "0"))  # round 2 is stored as <id>-3 / <id>-4
OUT = "/verif/seeded"
conf = {}
for l in open("/var/tmp/seeded-confirm.tsv"):
    p = l.rstrip("\n").split("\t")
    if len(p) >= 5:
        conf[(p[0], p[1])] = dict(x.split("=") for x in p[2:])
head = subprocess.check_output(["git", "-C", "/repo", "rev-parse", "--short", "HEAD"]).decode().strip()
for (pid, k), c in sorted(conf.items()):
    d = os.path.join(OUT, f"{pid}-{int(k) + KOFF}")
    os.makedirs(d, exist_ok=True)
    src = os.path.join(RAW, pid)
    patch = open(os.path.join(src, f"patch{k}.diff")).read()
    # rebase: apply with fuzz on a scratch copy of the current tree and re-diff
    tmp = subprocess.check_output(["mktemp", "-d", "/var/tmp/seed.XXXXXX"]).decode().strip()
    subprocess.run(["git", "-C", "/repo", "worktree", "add", "-q", "--detach", tmp + "/wt", "HEAD"], check=True)
    r = subprocess.run(["patch", "-s", "-p1", "--no-backup-if-mismatch", "-F3"], input=patch, text=True, cwd=tmp + "/wt", capture_output=True)
    applies = r.returncode == 0
    if applies:
        patch2 = subprocess.check_output(["git", "-C", tmp + "/wt", "diff", "--", "src"]).decode()
    else:
        patch2 = patch
    subprocess.run(["git", "-C", "/repo", "worktree", "remove", "--force", tmp + "/wt"])
    shutil.rmtree(tmp, ignore_errors=True)
    open(os.path.join(d, "patch.diff"), "w").write(patch2)
    shutil.copy(os.path.join(src, f"demo{k}.py"), os.path.join(d, "demo.py"))
    shutil.copy(os.path.join(src, f"notes{k}.md"), os.path.join(d, "notes.md"))
    meta = {
        "property": pid,
        "author": "independent sub-agent given only the property text and a scratch worktree",
        "needs_to_manifest": open(os.path.join(src, f"notes{k}.md")).read()[:1500],
        "confirmed_by_me": {"base_commit": head, "demo_on_clean_tree_exit": int(c["clean_demo"]), "suite_with_change_exit": int(c["suite"]),
                            "demo_with_change_exit": int(c["mut_demo"]), "how": "tools/confirm_seeded.sh in a scratch worktree under /var/tmp (removed afterwards)"},
        "applies_to_repo_head": {"commit": head, "ok": applies},
    }
    json.dump(meta, open(os.path.join(d, "meta.json"), "w"), indent=1)
    print(pid, k, "applies" if applies else "DOES NOT APPLY to HEAD")
