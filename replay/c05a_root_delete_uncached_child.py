import logging; logging.disable(logging.CRITICAL)
import os, sys, tempfile
sys.path.insert(0, os.environ.get("PYVC_REPO_SRC", "/repo/src"))
from dvc_objects.fs.local import LocalFileSystem
from dvc_data.hashfile.build import build
from dvc_data.hashfile.checkout import checkout, PromptError, CheckoutError
from dvc_data.hashfile.db.local import LocalHashFileDB
from dvc_data.hashfile.transfer import transfer
with tempfile.TemporaryDirectory(dir="/var/tmp") as tmp:
    fs = LocalFileSystem()
    ws = os.path.join(tmp, "ws"); os.makedirs(ws)
    open(os.path.join(ws, "a"), "wb").write(b"AAA"); open(os.path.join(ws, "b"), "wb").write(b"BBB")
    cache = LocalHashFileDB(fs, os.path.join(tmp, "cache"))
    staging, _, obj = build(cache, ws, fs, "md5")
    transfer(staging, cache, {obj.hash_info}, shallow=False)
    b = [hi for k, _, hi in obj if k == ("b",)][0]
    p = cache.oid_to_path(b.value); os.chmod(p, 0o644); os.unlink(p)      # the object of file b is no longer in the cache
    try:
        try:
            checkout(ws, fs, None, cache)          # no target object, no force, no prompt
        except CheckoutError:
            pass
        print("checkout returned; workspace dir exists:", os.path.exists(ws), "b exists:", os.path.exists(os.path.join(ws, "b")))
        sys.exit(1 if not os.path.exists(os.path.join(ws, "b")) else 0)
    except PromptError as e:
        ok = os.path.exists(os.path.join(ws, "b"))
        print("refused with PromptError; uncached file b still there:", ok); sys.exit(0 if ok else 1)
