import logging; logging.disable(logging.CRITICAL)
import os, sys, tempfile
sys.path.insert(0, os.environ.get("PYVC_REPO_SRC","/repo/src"))
from dvc_objects.fs.local import LocalFileSystem
from dvc_data.hashfile.build import build
from dvc_data.hashfile.checkout import checkout
from dvc_data.hashfile.db.local import LocalHashFileDB
from dvc_data.hashfile.transfer import transfer
with tempfile.TemporaryDirectory(dir="/var/tmp") as tmp:
    fs = LocalFileSystem()
    src = os.path.join(tmp, "src"); os.makedirs(src)
    open(os.path.join(src, "f"), "wb").write(b"hello")
    cache = LocalHashFileDB(fs, os.path.join(tmp, "cache"), type=["symlink"])
    staging, _, obj = build(cache, src, fs, "md5")
    transfer(staging, cache, {obj.hash_info}, shallow=False)
    ws = os.path.join(tmp, "ws")
    checkout(ws, fs, obj, cache, force=True)
    p = os.path.join(ws, "f")
    print("after symlink checkout: islink", os.path.islink(p))
    # the cache object gets one more hard link somewhere else (another workspace, shared cache)
    target = os.path.realpath(p)
    os.link(target, os.path.join(tmp, "other-link"))
    cache.cache_types = ["hardlink"]
    checkout(ws, fs, obj, cache, force=True, relink=True)
    st = os.lstat(p)
    print("after relinking checkout configured hardlink: islink", os.path.islink(p), "nlink", st.st_nlink)
    sys.exit(1 if os.path.islink(p) else 0)
