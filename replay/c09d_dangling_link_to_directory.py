"""F-C09d (fixed by 0e09926): a dangling symbolic link in the workspace at a path the target wants as a DIRECTORY: the walk records
the link as an entry without meta and hash, the diff calls (that entry, directory entry) 'added', _compare scheduled only the
creation and makedirs failed with FileExistsError.  exit 1 = reproduced."""
import logging; logging.disable(logging.CRITICAL)  # noqa: E702
import hashlib, os, sys, tempfile  # noqa: E401

sys.path.insert(0, os.environ.get("PYVC_REPO_SRC", "/repo/src"))
from dvc_objects.fs.local import LocalFileSystem  # noqa: E402

from dvc_data.hashfile.db import HashFileDB  # noqa: E402
from dvc_data.hashfile.hash_info import HashInfo  # noqa: E402
from dvc_data.hashfile.meta import Meta  # noqa: E402
from dvc_data.index import DataIndex, DataIndexEntry, ObjectStorage, build  # noqa: E402
from dvc_data.index.checkout import apply, compare  # noqa: E402

fs = LocalFileSystem()
with tempfile.TemporaryDirectory(dir="/var/tmp") as tmp:
    odb = HashFileDB(fs, os.path.join(tmp, "odb"))
    ws = os.path.join(tmp, "ws"); os.makedirs(ws)  # noqa: E702
    os.symlink(os.path.join(tmp, "gone"), os.path.join(ws, "a"))  # e.g. a symlink checkout whose cache object was collected
    idx = DataIndex()
    idx[("a",)] = DataIndexEntry(key=("a",), meta=Meta(isdir=True), loaded=True)
    h = hashlib.md5(b"zz").hexdigest(); odb.add_bytes(h, b"zz")  # noqa: E702, S324
    idx[("a", "c")] = DataIndexEntry(key=("a", "c"), meta=Meta(), hash_info=HashInfo("md5", h))
    idx.storage_map.add_cache(ObjectStorage((), odb))
    d = compare(build(ws, fs), idx, delete=True)
    print({a: [e.key for e in getattr(d, a)] for a in ("files_delete", "dirs_delete", "files_create", "dirs_create")})
    try:
        apply(d, ws, fs, links=["copy"])
        ok = os.path.isfile(os.path.join(ws, "a", "c"))
        print("apply returned; a/c there:", ok)
    except Exception as e:  # noqa: BLE001
        ok = False
        print("apply raised", repr(e))
print("not reproduced" if ok else "REPRODUCED")
sys.exit(0 if ok else 1)
