"""Native scenarios for gc (C06): independent set-difference oracle over real stores. JSON report on stdout."""
import logging; logging.disable(logging.CRITICAL)
import itertools, json, os, sys, tempfile
SRC = os.environ.get("PYVC_REPO_SRC", "/repo/src")
sys.path.insert(0, SRC)
from dvc_objects.errors import ObjectDBPermissionError
from dvc_objects.fs.local import LocalFileSystem
from dvc_data.hashfile.build import build
from dvc_data.hashfile.db import HashFileDB
from dvc_data.hashfile.db.local import LocalHashFileDB
from dvc_data.hashfile.gc import gc
from dvc_data.hashfile.hash_info import HashInfo
from dvc_data.hashfile.transfer import transfer


def populate(tmp, cls, hash_name):
    fs = LocalFileSystem()
    odb = cls(fs, os.path.join(tmp, "store"), hash_name=hash_name) if hash_name else cls(fs, os.path.join(tmp, "store"))
    src = os.path.join(tmp, "src"); os.makedirs(os.path.join(src, "d", "x"))
    # x/y and a sibling file literally named 'x\y' (legal on POSIX) are two different listed files
    for n, c in {"d/a": b"A", "d/b": b"B", "d/x/y": b"XY-slash", "d/x\\y": b"XY-backslash", "loose1": b"L1", "loose2": b"L2"}.items():
        open(os.path.join(src, n), "wb").write(c)
    objs = {}
    for n in ("d", "loose1", "loose2"):
        staging, _, obj = build(odb, os.path.join(src, n), fs, odb.hash_name)
        transfer(staging, odb, {obj.hash_info}, shallow=False)
        objs[n] = obj
    # the subject here is gc, not the transfer that filled the store: whatever the listing names is put there independently
    import hashlib
    have = set(odb.all())
    for c in (b"A", b"B", b"XY-slash", b"XY-backslash"):
        if hashlib.md5(c).hexdigest() not in have:
            odb.add_bytes(hashlib.md5(c).hexdigest(), c)
    return odb, objs


def run():
    reps = []
    for cls, hash_name, shallow, dry, ro, only_dirs in itertools.product((HashFileDB, LocalHashFileDB), (None, "md5-dos2unix"), (True, False), (True, False), (False, True), (False, True)):
      for used_kind in ("list", "set", "generator", "list+corrupt-used-listing"):
        corrupt = used_kind.endswith("corrupt-used-listing")
        if corrupt and (shallow or ro or only_dirs):
            continue
        with tempfile.TemporaryDirectory(dir="/var/tmp") as tmp:
            odb, objs = populate(tmp, cls, hash_name)
            d = objs["d"]
            used = [d.hash_info, objs["loose1"].hash_info, HashInfo("sha999", objs["loose2"].hash_info.value), HashInfo(odb.hash_name, "f" * 32)]
            expect_used = {d.hash_info.value, objs["loose1"].hash_info.value}
            if not shallow:
                expect_used |= {hi.value for _, _, hi in d}
            if only_dirs:
                # everything but the directory object itself is in use: the garbage consists of directory objects only
                used = [HashInfo(odb.hash_name, o) for o in odb.all() if not o.endswith(".dir")]
                expect_used = {h.value for h in used}
            if corrupt:
                # the used directory object is unreadable (truncated copy): expanding it fails; whatever gc does about that, it
                # removes no used object (the listing itself is one) and a dry run removes nothing
                p_ = odb.oid_to_path(d.hash_info.value)
                os.chmod(p_, 0o644); open(p_, "wb").write(open(p_, "rb").read()[:7])
            before = set(odb.all())
            cache = None
            if ro:
                cache = cls(LocalFileSystem(), odb.path, **({"hash_name": hash_name} if hash_name else {}))
                if used_kind == "set":
                    # the store is OPENED read-only (constructor argument), as get_odb(..., read_only=True) does
                    odb = cls(LocalFileSystem(), odb.path, read_only=True, **({"hash_name": hash_name} if hash_name else {}))
                else:
                    odb.read_only = True
            rep = {"cls": cls.__name__, "hash_name": hash_name, "shallow": shallow, "dry": dry, "read_only_store_with_writable_cache_odb": ro, "garbage_is_directory_objects_only": only_dirs}
            # the signature promises an Iterable: a list, a set, or a one-shot iterator (generator) of ids
            used_arg = {"list": list(used), "set": set(used), "generator": (h for h in list(used))}[used_kind.split("+")[0]]
            rep["used_given_as"] = used_kind
            try:
                n = gc(odb, used_arg, cache_odb=cache, shallow=shallow, dry=dry)
                after = set(odb.all())
                if ro:
                    rep["violation"] = "read-only store was not refused"
                elif n != len(before - expect_used):
                    rep["violation"] = f"count {n} != {len(before - expect_used)}"
                elif dry and after != before:
                    rep["violation"] = "dry run removed objects"
                elif not dry and after != before & expect_used:
                    rep["violation"] = f"kept {sorted(after)} expected {sorted(before & expect_used)}"
            except ObjectDBPermissionError:
                if not ro:
                    rep["violation"] = "refused a writable store"
                elif set(odb.all()) != before:
                    rep["violation"] = "refused but changed the store"
            except Exception as e:  # noqa: BLE001
                from dvc_objects.errors import ObjectFormatError
                if corrupt and isinstance(e, ObjectFormatError):
                    after = set(odb.all())
                    if dry and after != before:
                        rep["violation"] = f"a dry run (which failed on an unreadable used listing) removed {sorted(before - after)}"
                    elif d.hash_info.value not in after or (before & {objs['loose1'].hash_info.value}) - after:
                        rep["violation"] = f"gc failed on an unreadable used listing and removed used objects {sorted((before - after))}"
                else:
                    rep["violation"] = "raised " + repr(e)
            reps.append(rep)
    return reps


if __name__ == "__main__":
    print(json.dumps(run(), indent=1))
