import logging; logging.disable(logging.CRITICAL)
import os, sys, tempfile
sys.path.insert(0, os.environ.get("PYVC_REPO_SRC", "/repo/src"))
from dvc_objects.fs.local import LocalFileSystem
from dvc_data.hashfile.build import build
from dvc_data.hashfile.db import HashFileDB
from dvc_data.hashfile.transfer import transfer
with tempfile.TemporaryDirectory(dir="/var/tmp") as tmp:
    fs = LocalFileSystem()
    ws = os.path.join(tmp, "ws"); os.makedirs(ws)
    for n in ("a", "b"):
        open(os.path.join(ws, n), "wb").write(n.encode() * 3)
    src = HashFileDB(fs, os.path.join(tmp, "src"))          # a non-local-class store: no integrity filtering at status time
    staging, _, obj = build(src, ws, fs, "md5")
    transfer(staging, src, {obj.hash_info}, shallow=False)
    victim = [hi for _, _, hi in obj][0]
    open(src.oid_to_path(victim.value), "wb").write(b"corrupted bytes")    # corrupt source object
    dest = HashFileDB(fs, os.path.join(tmp, "dest"))
    ids = {obj.hash_info} | {hi for _, _, hi in obj}
    res = transfer(src, dest, ids, verify=True)
    absent = sorted(h.value for h in res.transferred if not dest.exists(h.value))
    print("failed:", sorted(h.value[:8] for h in res.failed), "transferred-but-absent:", [a[:8] for a in absent],
          "dir present:", dest.exists(obj.hash_info.value), "victim present:", dest.exists(victim.value))
    sys.exit(1 if absent or (dest.exists(obj.hash_info.value) and not dest.exists(victim.value)) else 0)
