"""F-C09b: target given as explicit FILE entries only; after compare+apply with delete=True the workspace equals the target,
yet a second compare still schedules the (implicit) directories of the target for deletion."""
import logging; logging.disable(logging.CRITICAL)
import hashlib, os, sys, tempfile
sys.path.insert(0, os.environ.get("PYVC_REPO_SRC", "/repo/src"))
from dvc_objects.fs.local import LocalFileSystem
from dvc_data.hashfile.db import HashFileDB
from dvc_data.hashfile.hash_info import HashInfo
from dvc_data.hashfile.meta import Meta
from dvc_data.index import DataIndex, DataIndexEntry, ObjectStorage, build, md5
from dvc_data.index.checkout import apply, compare

with tempfile.TemporaryDirectory(dir="/var/tmp") as tmp:
    fs = LocalFileSystem()
    odb = HashFileDB(fs, os.path.join(tmp, "odb"))
    ws = os.path.join(tmp, "ws"); os.makedirs(ws)

    def target():
        idx = DataIndex()
        for key, data in {("a", "b"): b"y", ("a", "c"): b"x", ("c",): b"x"}.items():
            h = hashlib.md5(data).hexdigest(); odb.add_bytes(h, data)
            idx[key] = DataIndexEntry(key=key, meta=Meta(), hash_info=HashInfo("md5", h))
        idx.storage_map.add_cache(ObjectStorage((), odb))
        return idx

    apply(compare(md5(build(ws, fs)), target(), delete=True), ws, fs, links=["copy"])
    d2 = compare(md5(build(ws, fs)), target(), delete=True)
    left = {a: [e.key for e in getattr(d2, a)] for a in ("files_delete", "dirs_delete", "files_create", "dirs_create") if getattr(d2, a)}
    print("second compare:", left or "nothing left to do")
    sys.exit(1 if left else 0)
