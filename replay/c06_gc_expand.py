"""F-C06a: gc(..., shallow=False) with a used directory object"""
import logging; logging.disable(logging.CRITICAL)
import os, sys, tempfile
sys.path.insert(0, os.environ.get("PYVC_REPO_SRC", "/repo/src"))
from dvc_objects.fs.local import LocalFileSystem
from dvc_data.hashfile.build import build
from dvc_data.hashfile.db.local import LocalHashFileDB
from dvc_data.hashfile.gc import gc
from dvc_data.hashfile.transfer import transfer
with tempfile.TemporaryDirectory(dir="/var/tmp") as tmp:
    fs = LocalFileSystem()
    src = os.path.join(tmp, "src"); os.makedirs(src)
    for n in ("a", "b"):
        open(os.path.join(src, n), "wb").write(n.encode())
    open(os.path.join(tmp, "junk"), "wb").write(b"junk")
    odb = LocalHashFileDB(fs, os.path.join(tmp, "cache"))
    staging, _, obj = build(odb, src, fs, "md5")
    transfer(staging, odb, {obj.hash_info}, shallow=False)
    _, _, junk = build(odb, os.path.join(tmp, "junk"), fs, "md5")
    odb.add(os.path.join(tmp, "junk"), fs, junk.hash_info.value)
    before = set(odb.all())
    try:
        n = gc(odb, [obj.hash_info], shallow=False)
    except ValueError as e:
        print("gc raised", repr(e)); sys.exit(1)
    after = set(odb.all())
    expect = {obj.hash_info.value} | {hi.value for _, _, hi in obj}
    print("removed", n, "kept", sorted(after))
    sys.exit(0 if after == expect and n == len(before - expect) else 1)
