"""F-C05b: a dangling symlink in the workspace makes the re-staging of the workspace fail; _diff() swallowed the error,
lost the old listing, and every entry took the unguarded add path: an edited, uncached file was overwritten without force."""
import logging; logging.disable(logging.CRITICAL)
import os, sys, tempfile
sys.path.insert(0, os.environ.get("PYVC_REPO_SRC", "/repo/src"))
from dvc_objects.fs.local import LocalFileSystem
from dvc_data.hashfile.build import build
from dvc_data.hashfile.checkout import checkout, PromptError, CheckoutError
from dvc_data.hashfile.db.local import LocalHashFileDB
from dvc_data.hashfile.transfer import transfer
with tempfile.TemporaryDirectory(dir="/var/tmp") as tmp:
    fs = LocalFileSystem()
    cache = LocalHashFileDB(fs, os.path.join(tmp, "cache"))
    src = os.path.join(tmp, "src"); os.makedirs(src)
    open(os.path.join(src, "a"), "wb").write(b"tracked a"); open(os.path.join(src, "b"), "wb").write(b"tracked b")
    staging, _, obj = build(cache, src, fs, "md5")
    transfer(staging, cache, {obj.hash_info}, shallow=False)
    ws = os.path.join(tmp, "ws")
    checkout(ws, fs, obj, cache, force=True)
    # user activity: edits b (content never cached) and leaves a dangling symlink in the directory
    p = os.path.join(ws, "b"); os.chmod(p, 0o644); open(p, "wb").write(b"precious edit, nowhere else")
    os.symlink(os.path.join(tmp, "does-not-exist"), os.path.join(ws, "dangling"))
    try:
        r = checkout(ws, fs, obj, cache)          # no force, no prompt
        outcome = f"returned {r!r}"
    except (PromptError, CheckoutError, FileNotFoundError) as e:
        outcome = f"refused: {type(e).__name__}"
    now = open(p, "rb").read()
    print(outcome, "| b now:", now)
    sys.exit(0 if now == b"precious edit, nowhere else" else 1)
