import logging; logging.disable(logging.CRITICAL)
import os, sys, tempfile
sys.path.insert(0, "/repo/src")
from dvc_objects.fs.local import LocalFileSystem
from dvc_data.hashfile.build import build
from dvc_data.hashfile.db.local import LocalHashFileDB
from dvc_data.hashfile.gc import gc
from dvc_data.hashfile.transfer import transfer
with tempfile.TemporaryDirectory(dir="/var/tmp") as tmp:
    fs = LocalFileSystem()
    src = os.path.join(tmp, "src"); os.makedirs(src)
    open(os.path.join(src, "a"), "wb").write(b"a")
    odb = LocalHashFileDB(fs, os.path.join(tmp, "cache"))
    staging, _, obj = build(odb, src, fs, "md5")
    transfer(staging, odb, {obj.hash_info}, shallow=False)
    unpacked = odb.oid_to_path(obj.hash_info.value) + ".unpacked"
    os.makedirs(unpacked); open(os.path.join(unpacked, "x"), "w").write("legacy")
    n = gc(odb, [], dry=True)
    print("dry gc returned", n, "; legacy unpacked dir still exists:", os.path.exists(unpacked))
