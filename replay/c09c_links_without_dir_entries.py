"""F-C09c (fixed by 3008193): index-level apply() with link type hardlink / symlink and a target given as explicit file entries
only (no directory entries): the file below a not-yet-existing directory was not created -- FileNotFoundError through onerror
although its data is in the cache -- and apply() then raised from the meta update.  exit 1 = reproduced."""
import logging; logging.disable(logging.CRITICAL)  # noqa: E702
import hashlib, os, sys, tempfile  # noqa: E401

sys.path.insert(0, os.environ.get("PYVC_REPO_SRC", "/repo/src"))
from dvc_objects.fs.local import LocalFileSystem  # noqa: E402

from dvc_data.hashfile.db import HashFileDB  # noqa: E402
from dvc_data.hashfile.hash_info import HashInfo  # noqa: E402
from dvc_data.hashfile.meta import Meta  # noqa: E402
from dvc_data.index import DataIndex, DataIndexEntry, ObjectStorage  # noqa: E402
from dvc_data.index.checkout import apply, compare  # noqa: E402

fs, bad = LocalFileSystem(), []
for link in (["copy"], ["hardlink"], ["symlink"]):
    with tempfile.TemporaryDirectory(dir="/var/tmp") as tmp:
        odb = HashFileDB(fs, os.path.join(tmp, "odb"))
        ws = os.path.join(tmp, "ws"); os.makedirs(ws)  # noqa: E702
        idx = DataIndex()
        for k, d in {"a": b"A", "sub/dir/b": b"B"}.items():
            h = hashlib.md5(d).hexdigest(); odb.add_bytes(h, d)  # noqa: E702, S324
            key = tuple(k.split("/"))
            idx[key] = DataIndexEntry(key=key, meta=Meta(), hash_info=HashInfo("md5", h))
        idx.storage_map.add_cache(ObjectStorage((), odb))
        errors, name = [], link[0]
        try:
            apply(compare(None, idx), ws, fs, onerror=lambda *a: errors.append(a), links=link)
            outcome = "returned"
        except Exception as e:  # noqa: BLE001
            outcome = "raised " + repr(e)
        have = sorted(os.path.relpath(os.path.join(r, f), ws) for r, _, fn in os.walk(ws) for f in fn)
        print(name, outcome, "| onerror calls:", len(errors), "| workspace:", have)
        if outcome != "returned" or errors or have != ["a", "sub/dir/b"]:
            bad.append(name)
print("REPRODUCED for", bad) if bad else print("not reproduced: every link type creates sub/dir/b")
sys.exit(1 if bad else 0)
