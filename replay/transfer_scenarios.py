"""Native scenarios for transfer (C04/C11): two directories sharing a file, an upload fault on the shared file.
Run against the tree in PYVC_REPO_SRC (default /repo/src).  Prints a JSON report; exit 0 always."""
import logging; logging.disable(logging.CRITICAL)
import json
import os
import sys
import tempfile

SRC = os.environ.get("PYVC_REPO_SRC", "/repo/src")
sys.path.insert(0, SRC)

from dvc_objects.fs.local import LocalFileSystem  # noqa: E402

from dvc_data.hashfile.build import build  # noqa: E402
from dvc_data.hashfile.db import HashFileDB  # noqa: E402
from dvc_data.hashfile.db.local import LocalHashFileDB  # noqa: E402
from dvc_data.hashfile.transfer import transfer  # noqa: E402
from dvc_data.hashfile.tree import Tree  # noqa: E402


class FailingFS(LocalFileSystem):
    """fails the upload (put_file / copy into the store) of chosen object ids"""

    fail_oids: set = set()
    log: list = []

    def _hit(self, dest):
        d = str(dest).replace(os.sep, "")
        return any(o.replace(".dir", "") in d and (o.endswith(".dir") == str(dest).endswith(".dir")) for o in self.fail_oids)

    def put_file(self, from_file, to_info, callback=None, **kwargs):
        if self._hit(to_info):
            raise OSError(5, "injected upload fault", str(to_info))
        return super().put_file(from_file, to_info, callback=callback, **kwargs)


def closed(odb):
    """every .dir object present lists only files that are present; returns list of (dir, missing child)"""
    bad = []
    for oid in odb.all():
        if oid.endswith(".dir"):
            from dvc_data.hashfile.hash_info import HashInfo

            t = Tree.load(odb, HashInfo(odb.hash_name, oid))
            for _, _, hi in t:
                if not odb.exists(hi.value):
                    bad.append((oid, hi.value))
    return bad


def scenario_shared_file_fails():
    out = {"name": "two requested directories share a file whose upload fails"}
    with tempfile.TemporaryDirectory(dir="/var/tmp") as tmp:
        fs = LocalFileSystem()
        ws = os.path.join(tmp, "ws")
        for d, files in (("d1", {"shared": b"SHARED", "a": b"A"}), ("d2", {"shared": b"SHARED", "b": b"B"})):
            os.makedirs(os.path.join(ws, d))
            for n, c in files.items():
                open(os.path.join(ws, d, n), "wb").write(c)
        cache = LocalHashFileDB(fs, os.path.join(tmp, "cache"))
        ids = set()
        trees = {}
        for d in ("d1", "d2"):
            staging, _, obj = build(cache, os.path.join(ws, d), fs, "md5")
            transfer(staging, cache, {obj.hash_info}, shallow=False)
            ids.add(obj.hash_info)
            trees[d] = obj
            for _, _, hi in obj:
                ids.add(hi)
        shared = [hi for _, _, hi in trees["d1"] if hi in {h for _, _, h in trees["d2"]}][0]
        ffs = FailingFS()
        FailingFS.fail_oids = {shared.value}
        remote = HashFileDB(ffs, os.path.join(tmp, "remote"))
        res = transfer(cache, remote, ids)
        bad = closed(remote)
        out["failed_reported"] = sorted(h.value for h in res.failed)
        out["transferred_reported"] = sorted(h.value for h in res.transferred)
        out["unclosed"] = bad
        out["transferred_but_absent"] = sorted(h.value for h in res.transferred if not remote.exists(h.value))
        out["violates_C04"] = bool(bad)
        out["violates_C11"] = bool(out["transferred_but_absent"])
    return out


def scenario_missing_both_sides():
    out = {"name": "requested directory lists a file that is missing on both sides"}
    with tempfile.TemporaryDirectory(dir="/var/tmp") as tmp:
        fs = LocalFileSystem()
        ws = os.path.join(tmp, "ws", "d")
        os.makedirs(ws)
        for n, c in {"a": b"A", "gone": b"GONE"}.items():
            open(os.path.join(ws, n), "wb").write(c)
        cache = LocalHashFileDB(fs, os.path.join(tmp, "cache"))
        staging, _, obj = build(cache, ws, fs, "md5")
        transfer(staging, cache, {obj.hash_info}, shallow=False)
        gone = [hi for k, _, hi in obj if k == ("gone",)][0]
        os.chmod(cache.oid_to_path(gone.value), 0o644)
        os.unlink(cache.oid_to_path(gone.value))
        remote = HashFileDB(LocalFileSystem(), os.path.join(tmp, "remote"))
        ids = {obj.hash_info} | {hi for _, _, hi in obj}
        res = transfer(cache, remote, ids)
        out["failed_reported"] = sorted(h.value for h in res.failed)
        out["transferred_reported"] = sorted(h.value for h in res.transferred)
        out["transferred_but_absent"] = sorted(h.value for h in res.transferred if not remote.exists(h.value))
        out["unclosed"] = closed(remote)
        out["violates_C04"] = bool(out["unclosed"])
        out["violates_C11"] = bool(out["transferred_but_absent"])
    return out


if __name__ == "__main__":
    reps = []
    for seed in range(int(os.environ.get("SCEN_SEEDS", "4"))):
        os.environ["PYTHONHASHSEED"] = str(seed)
        reps.append(scenario_shared_file_fails())
        reps.append(scenario_missing_both_sides())
    print(json.dumps(reps, indent=1))
