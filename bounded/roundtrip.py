"""Bounded stand-in for C02's end-to-end clause: stage -> transfer into a store -> check out into a fresh location,
through the object-level checkout and through the index-level compare/apply, recreates exactly the original set of
relative paths with byte-identical contents; reloading the directory object yields the listing that was built; the
reported file count and total size match the data.

Trees of files (depth <= 4, duplicates, empty files, unusual names), both store classes, every link type (copy, hardlink,
symlink), with and without a hash-state cache, source path given with or without a trailing separator.

usage: roundtrip.py [N]  (seed from VERIF_SEED) -> JSON report, last line of stdout
"""
import logging; logging.disable(logging.CRITICAL)  # noqa: E702
import _memfs  # noqa: E402
import hashlib, json, os, random, sys, tempfile  # noqa: E401

SRC = os.environ.get("PYVC_REPO_SRC", "/repo/src")
sys.path.insert(0, SRC)
from dvc_objects.fs.local import LocalFileSystem  # noqa: E402

from dvc_data.hashfile import load  # noqa: E402
from dvc_data.hashfile.build import build  # noqa: E402
from dvc_data.hashfile.checkout import checkout  # noqa: E402
from dvc_data.hashfile.db import HashFileDB  # noqa: E402
from dvc_data.hashfile.db.local import LocalHashFileDB  # noqa: E402
from dvc_data.hashfile.meta import Meta  # noqa: E402
from dvc_data.hashfile.state import State  # noqa: E402
from dvc_data.hashfile.transfer import transfer  # noqa: E402
from dvc_data.index import DataIndex, DataIndexEntry, ObjectStorage  # noqa: E402
from dvc_data.index.checkout import apply, compare  # noqa: E402

FS = LocalFileSystem()
NAMES = ["a", "b", "data", "ata", "x y", "ü", "a.dir", "z", "win\\style", "a\\b", "cafe\u0301", "caf\u00e9", "a.b"]  # decomposed / composed twins are different paths
CONTENTS = [b"", b"one", b"one", b"two\r\n", os.urandom(17), b"x" * 3000]


def rand_tree(rng):
    files = {}
    for _ in range(rng.randint(1, 7)):
        k = tuple(rng.choice(NAMES) for _ in range(rng.randint(1, 4)))
        if any(k[: len(o)] == o or o[: len(k)] == k for o in files):
            continue
        files[k] = rng.choice(CONTENTS)
    return files


def snapshot(root):
    out = {}
    if os.path.isfile(root):
        return {(): open(root, "rb").read()}
    for d, _, fns in os.walk(root):
        for fn in fns:
            p = os.path.join(d, fn)
            out[tuple(os.path.relpath(p, root).split(os.sep))] = open(p, "rb").read()
    return out


def run_one(rng, i):
    cls = (HashFileDB, LocalHashFileDB)[i % 2]
    link = ("copy", "hardlink", "symlink")[(i // 2) % 3]
    with_state = bool((i // 6) % 2)
    single_file = rng.random() < 0.15
    trailing = (not single_file) and rng.random() < 0.4
    files = {(): rng.choice(CONTENTS)} if single_file else rand_tree(rng)
    probs = []
    with tempfile.TemporaryDirectory(dir="/var/tmp") as tmp:
        src = os.path.join(tmp, "src")
        if single_file:
            open(src, "wb").write(files[()])
        else:
            for k, d in files.items():
                p = os.path.join(src, *k)
                os.makedirs(os.path.dirname(p), exist_ok=True)
                open(p, "wb").write(d)
        state = State(tmp, os.path.join(tmp, "state")) if with_state else None
        try:
            odb = cls(FS, os.path.join(tmp, "odb"), state=state) if state else cls(FS, os.path.join(tmp, "odb"))
            odb.cache_types = [link]
            upload = rng.random() < 0.25  # upload staging: every file is streamed to a temp name in the store and added under the digest of the stream
            staging, meta, obj = build(odb, src + ((os.sep * (2 if i % 5 == 4 else 1)) if trailing else ""), FS, "md5", upload=upload)
            if not single_file and rng.random() < 0.35:
                # other work on the same store between staging and transfer: ANOTHER directory holding copies of some of the
                # files is staged, then edited or removed.  The first staging must keep referring to the first directory.
                other = os.path.join(tmp, "other")
                for k, d in list(files.items())[: rng.randint(1, 3)]:
                    q = os.path.join(other, *k)
                    os.makedirs(os.path.dirname(q), exist_ok=True)
                    open(q, "wb").write(d)
                build(odb, other, FS, "md5")
                if rng.random() < 0.5:
                    import shutil
                    shutil.rmtree(other)
                else:
                    for d_, _, fns in os.walk(other):
                        for fn in fns:
                            open(os.path.join(d_, fn), "wb").write(b"edited after staging " + os.urandom(3))
            transfer(staging, odb, {obj.hash_info}, shallow=False)
            for d_, _, fns in os.walk(odb.path):
                for fn in fns:
                    rel = os.path.relpath(os.path.join(d_, fn), odb.path).split(os.sep)
                    if len(rel) == 2 and len(rel[0]) == 2:
                        oid = "".join(rel)
                        actual = hashlib.md5(open(os.path.join(d_, fn), "rb").read()).hexdigest()  # noqa: S324
                        if actual != oid.removesuffix(".dir") and not probs:
                            probs.append(f"after staging{' (upload)' if upload else ''} and transfer the store holds {oid} whose bytes hash to {actual}")
            if not single_file:
                listing = {k: hi.value for k, _, hi in obj}
                want = {k: hashlib.md5(d).hexdigest() for k, d in files.items()}  # noqa: S324
                if listing != want:
                    probs.append(f"listing built differs from the data: {sorted(set(listing) ^ set(want))[:3] or 'digests'}")
                again = load(odb, obj.hash_info)
                if {k: hi.value for k, _, hi in again} != listing:
                    probs.append("reloading the directory object does not yield the listing that was built")
                if meta.nfiles != len(files) or meta.size != sum(len(d) for d in files.values()):
                    probs.append(f"reported nfiles/size {meta.nfiles}/{meta.size} != {len(files)}/{sum(len(d) for d in files.values())}")
            # object-level checkout into a fresh location
            out1 = os.path.join(tmp, "out1")
            checkout(out1, FS, obj, odb, state=state)
            if snapshot(out1) != files:
                got = snapshot(out1)
                probs.append(f"object checkout ({link}): paths differ {sorted(set(got) ^ set(files))[:3]} or contents differ")
            # index-level compare/apply into a fresh location
            out2 = os.path.join(tmp, "out2")
            idx = DataIndex()
            if single_file:
                idx[("f",)] = DataIndexEntry(key=("f",), meta=Meta(), hash_info=obj.hash_info)
            else:
                idx[("d",)] = DataIndexEntry(key=("d",), meta=Meta(isdir=True), hash_info=obj.hash_info)
            idx.storage_map.add_cache(ObjectStorage((), odb))
            errors = []
            os.makedirs(out2)
            apply(compare(None, idx), out2, FS, onerror=lambda *a: errors.append(a), links=[link])
            got2 = snapshot(os.path.join(out2, "f" if single_file else "d"))
            if errors or got2 != files:
                probs.append(f"index checkout ({link}): {len(errors)} errors, paths differ {sorted(set(got2) ^ set(files))[:3]} or contents differ")
        except Exception as e:  # noqa: BLE001
            probs.append(f"raised {type(e).__name__}: {e}")
        finally:
            if state is not None:
                state.close()
    return [{"cls": cls.__name__, "link": link, "state": with_state, "trailing_sep": trailing, "upload": upload,
             "files": {"/".join(k): len(v) for k, v in files.items()}, "problems": probs[:3]}] if probs else []


def main():
    n = int(sys.argv[1]) if len(sys.argv) > 1 else 120
    rng = random.Random(int(os.environ.get("VERIF_SEED", "1")))
    failures = []
    for i in range(n):
        _memfs.reset()
        failures += run_one(rng, i)
    print(json.dumps({"evaluations": n, "distinct_nontrivial": n, "n_failures": len(failures), "failures": failures[:4],
                      "bound": f"{n} seeded trees: <= 7 files, depth <= 4, duplicates / empty / CRLF / non-ASCII names, single files; 2 store classes x 3 link "
                               "types x state on/off; source path with/without trailing separator(s); a quarter staged through the upload path; the store audited (name = digest) after the transfer; in a third of the runs another directory with copies of some files is staged on the same store and then edited/removed before the transfer"}))


if __name__ == "__main__":
    main()
