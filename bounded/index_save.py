"""Bounded stand-in for C01's index clause (dvc_data/index/save.py: md5() re-validation + save()) with an independent audit.

History over one workspace and two stores (either store class): build an index of the workspace, md5() it, save() it;
then repeatedly: edit files (rewrite, same-size rewrite, append, delete, add, CRLF text, duplicates), obtain the next index
EITHER by re-validating the previous one (md5(previous): the entries still carry their recorded hashes) OR by a fresh
build + update(new, previous) + md5(new), and save() it into one of the stores.
Oracle, after every save: every object in every store is named by the md5 of its own bytes (directory objects: of the
listing, '.dir' suffix), objects of a local store are read-only; every file entry of a re-validated index that carries a
hash carries the md5 of the file's current bytes.  mtimes always move forward by >= 1 s (timer resolution is not the subject).

usage: index_save.py [N]  (seed from VERIF_SEED) -> JSON report, last line of stdout
"""
import logging; logging.disable(logging.CRITICAL)  # noqa: E702
import _memfs  # noqa: E402
import hashlib, json, os, random, stat, sys, tempfile, time  # noqa: E401

SRC = os.environ.get("PYVC_REPO_SRC", "/repo/src")
sys.path.insert(0, SRC)
from dvc_objects.fs.local import LocalFileSystem  # noqa: E402

from dvc_data.hashfile.db import HashFileDB  # noqa: E402
from dvc_data.hashfile.db.local import LocalHashFileDB  # noqa: E402
from dvc_data.index import build, md5, save, update  # noqa: E402

FS = LocalFileSystem()
NAMES = ["foo", "data/bar", "data/baz", "data/sub/empty", "data/sub/déjà", "data/x y", "other/one", "z"]
CONTENTS = [b"", b"foo\n", b"foo\n", b"bar\r\nwith crlf\r\n", b"x" * 2500]


def h(b):
    return hashlib.md5(b).hexdigest()  # noqa: S324


def put(p, data, clock):
    os.makedirs(os.path.dirname(p), exist_ok=True)
    open(p, "wb").write(data)
    clock[0] += 1
    os.utime(p, (clock[0], clock[0]))


def edit(rng, ws, clock):
    name = rng.choice(NAMES + ["data/new", "fresh"])
    p = os.path.join(ws, name)
    old = open(p, "rb").read() if os.path.isfile(p) else None
    if old is None:
        put(p, rng.choice(CONTENTS) if rng.random() < 0.5 else os.urandom(rng.randint(1, 12)), clock)
        return ("add", name)
    kind = rng.choice(["rewrite", "rewrite_longer", "same_size", "append", "delete", "copy_of_other"])
    if kind == "rewrite":
        put(p, os.urandom(rng.randint(1, 12)), clock)
    elif kind == "rewrite_longer":
        put(p, b"completely different and longer content\n" + old, clock)
    elif kind == "same_size":
        put(p, bytes((x + 1) % 256 for x in old) or b"!", clock)
    elif kind == "append":
        put(p, old + b"+", clock)
    elif kind == "copy_of_other":
        put(p, rng.choice(CONTENTS), clock)
    else:
        os.unlink(p)
    return (kind, name)


def audit(odb, label):
    probs = []
    root = odb.path
    if not os.path.isdir(root):
        return probs
    for d, _, fns in os.walk(root):
        for fn in fns:
            full = os.path.join(d, fn)
            rel = os.path.relpath(full, root).split(os.sep)
            if len(rel) != 2 or len(rel[0]) != 2:
                continue
            oid = "".join(rel)
            actual = h(open(full, "rb").read())
            if actual != (oid[:-4] if oid.endswith(".dir") else oid):
                probs.append(f"{label}: object {oid} holds bytes whose md5 is {actual}")
            if isinstance(odb, LocalHashFileDB) and stat.S_IMODE(os.stat(full).st_mode) & 0o222:
                probs.append(f"{label}: object {oid} in a local store is writable")
    return probs


def check_index(index, ws, what):
    bad = []
    for key, entry in index.iteritems():
        if entry.meta and entry.meta.isdir:
            continue
        p = os.path.join(ws, *key)
        if entry.hash_info is None or not entry.hash_info.value or not os.path.isfile(p):
            continue
        want = h(open(p, "rb").read())
        if entry.hash_info.value != want:
            bad.append(f"{what}: entry {'/'.join(key)} carries {entry.hash_info.value}, the file's current bytes hash to {want}")
    return bad


def run_history(rng, i):
    with tempfile.TemporaryDirectory(dir="/var/tmp") as tmp:
        ws = os.path.join(tmp, "ws")
        clock = [int(time.time()) - 9_000_000]
        for n in rng.sample(NAMES, rng.randint(2, 6)):
            put(os.path.join(ws, n), rng.choice(CONTENTS) if rng.random() < 0.6 else os.urandom(rng.randint(1, 12)), clock)
        classes = [(LocalHashFileDB, HashFileDB)[(i + j) % 2] for j in range(2)]
        stores = [cls(FS, os.path.join(tmp, f"store{j}")) for j, cls in enumerate(classes)]
        log, probs = [], []
        index = md5(build(ws, FS))
        save(index, odb=stores[0])
        probs += audit(stores[0], "after the first save")
        for _ in range(rng.randint(1, 4)):
            if probs:
                break
            for _ in range(rng.randint(0, 3)):
                log.append(edit(rng, ws, clock))
            if not os.path.isdir(ws) or not any(fns for _, _, fns in os.walk(ws)):
                break
            if rng.random() < 0.5:
                nxt = md5(index)  # re-validate the previous index: entries carry their recorded hashes
                log.append(("md5(previous index)",))
                probs += check_index(nxt, ws, "after md5(previous index)")
            else:
                new = build(ws, FS)
                update(new, index)
                nxt = md5(new)
                log.append(("build+update+md5",))
                probs += check_index(nxt, ws, "after build+update+md5")
            j = rng.randrange(2)
            save(nxt, odb=stores[j])
            log.append(("save", f"store{j}:{classes[j].__name__}"))
            for k, s in enumerate(stores):
                probs += audit(s, f"store{k} ({classes[k].__name__}) after save #{len([x for x in log if x[0] == 'save'])}")
            index = nxt
        return [{"history": log[-10:], "problems": probs[:3]}] if probs else []


def main():
    n = int(sys.argv[1]) if len(sys.argv) > 1 else 150
    rng = random.Random(int(os.environ.get("VERIF_SEED", "1")))
    failures = []
    for i in range(n):
        _memfs.reset()
        try:
            failures += run_history(rng, i)
        except Exception as e:  # noqa: BLE001
            failures.append({"problems": [f"raised {type(e).__name__}: {str(e)[:160]}"]})
    print(json.dumps({"evaluations": n, "distinct_nontrivial": n, "n_failures": len(failures), "failures": failures[:4],
                      "bound": f"{n} seeded histories: <= 8 files (nested, duplicates, empty, CRLF, non-ASCII), <= 4 rounds of (<= 3 edits, "
                               "md5(previous) or build+update+md5, save into one of two stores of either class), audit of both stores after every save"}))


if __name__ == "__main__":
    main()
