"""fsspec's in-memory filesystem is one process-wide store, and its info() scans every path in it: a stand-in that digests or
stages thousands of trees in one process would slow down quadratically.  reset() empties that store between cases (nothing a
finished case left there is used again)."""


def reset():
    try:
        from fsspec.implementations.memory import MemoryFileSystem

        MemoryFileSystem.store.clear()
        MemoryFileSystem.pseudo_dirs[:] = [""]
    except Exception:  # noqa: BLE001,S110
        pass
