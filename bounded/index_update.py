"""Bounded stand-in for C13's index clauses: index.update() (hash carried over by metadata) and index.md5().

History: build + md5 an index of a workspace; mutate files (rewrite, same-size rewrite, touch, atomic replace, in-place append with the mtime put back, delete,
re-create, add); build a fresh index; update(new, old); md5(new).
Oracle: (A) every hash that update() carried over equals the md5 of the file's CURRENT bytes; (B) after md5() every file
entry present carries the md5 of its current bytes.  Timer resolution is taken out of the picture: every write moves the
mtime forward by >= 1 s.

usage: index_update.py [N]  (seed from VERIF_SEED) -> JSON report, last line of stdout
"""
import logging; logging.disable(logging.CRITICAL)  # noqa: E702
import _memfs  # noqa: E402
import hashlib, json, os, random, sys, tempfile, time  # noqa: E401

SRC = os.environ.get("PYVC_REPO_SRC", "/repo/src")
sys.path.insert(0, SRC)
from dvc_objects.fs.local import LocalFileSystem  # noqa: E402

from dvc_data.index import build, md5, update  # noqa: E402

FS = LocalFileSystem()
SEEN_INODES: dict = {}
NAMES = ["a", "b", "d/c", "d/e/f", "g"]


def h(b):
    return hashlib.md5(b).hexdigest()  # noqa: S324


def put(p, data, clock):
    os.makedirs(os.path.dirname(p), exist_ok=True)
    open(p, "wb").write(data)
    clock[0] += 1
    os.utime(p, (clock[0], clock[0]))


def mutate(rng, ws, clock):
    name = rng.choice(NAMES + ["new1", "d/new2"])
    p = os.path.join(ws, name)
    kind = rng.choice(["rewrite", "same_size", "touch", "replace", "replace_keep_mtime", "delete", "recreate", "append_keep_mtime", "append_keep_mtime"])
    old = open(p, "rb").read() if os.path.isfile(p) else None
    if old is None:
        put(p, os.urandom(rng.randint(1, 9)), clock)
        return ("add", name)
    if kind == "rewrite":
        put(p, os.urandom(rng.randint(1, 9)), clock)
    elif kind == "same_size":
        put(p, bytes((x + 1) % 256 for x in old), clock)
    elif kind == "touch":
        clock[0] += 1
        os.utime(p, (clock[0], clock[0]))
    elif kind == "replace":
        tmp = p + ".tmp"
        open(tmp, "wb").write(bytes((x + 7) % 256 for x in old))
        os.replace(tmp, p)
        clock[0] += 1
        os.utime(p, (clock[0], clock[0]))
    elif kind == "replace_keep_mtime":  # same size, same mtime, new inode: only the inode tells
        st = os.stat(p)
        tmp = p + ".tmp"
        open(tmp, "wb").write(bytes((x + 3) % 256 for x in old))
        os.replace(tmp, p)
        os.utime(p, ns=(st.st_atime_ns, st.st_mtime_ns))
        if os.stat(p).st_ino in SEEN_INODES.setdefault(p, set()) or os.stat(p).st_ino == st.st_ino:
            # the filesystem handed an old inode number back: (inode, mtime, size) would all be unchanged, which the
            # statement's histories exclude -- move the mtime instead
            clock[0] += 1
            os.utime(p, (clock[0], clock[0]))
        SEEN_INODES[p].update((st.st_ino, os.stat(p).st_ino))
    elif kind == "append_keep_mtime":  # in-place append (same inode, other size) with the old mtime put back (rsync -t / cp -p style)
        st = os.stat(p)
        with open(p, "ab") as f:
            f.write(b"+appended")
        os.utime(p, ns=(st.st_atime_ns, st.st_mtime_ns))
    elif kind == "delete":
        os.unlink(p)
    else:
        os.unlink(p)
        put(p, os.urandom(len(old)), clock)
    return (kind, name)


def check(index, ws, what, only_hashed):
    bad = []
    for key, entry in index.iteritems():
        if entry.meta and entry.meta.isdir:
            continue
        p = os.path.join(ws, *key)
        if entry.hash_info is None or not entry.hash_info.value:
            if not only_hashed:
                bad.append(f"{what}: {'/'.join(key)} has no hash")
            continue
        if not os.path.isfile(p):
            continue
        want = h(open(p, "rb").read())
        if entry.hash_info.name not in ("md5", None) or entry.hash_info.value != want:
            bad.append(f"{what}: {'/'.join(key)} carries {entry.hash_info.name}:{entry.hash_info.value}, current bytes hash to {want}")
    return bad


def run_history(rng):
    with tempfile.TemporaryDirectory(dir="/var/tmp") as tmp:
        ws = os.path.join(tmp, "ws")
        clock = [int(time.time()) - 9_000_000]
        for n in rng.sample(NAMES, rng.randint(2, 5)):
            put(os.path.join(ws, n), os.urandom(rng.randint(1, 9)), clock)
        old = md5(build(ws, FS))
        log = [mutate(rng, ws, clock) for _ in range(rng.randint(0, 5))]
        if not os.path.isdir(ws):
            return []
        new = build(ws, FS)
        update(new, old)
        bad = check(new, ws, "after update()", only_hashed=True)
        final = md5(new)
        bad += check(final, ws, "after md5()", only_hashed=False)
        return [{"history": log, "problems": bad[:3]}] if bad else []


def main():
    n = int(sys.argv[1]) if len(sys.argv) > 1 else 200
    rng = random.Random(int(os.environ.get("VERIF_SEED", "1")))
    failures, evals = [], 0
    for _ in range(n):
        _memfs.reset()
        try:
            failures += run_history(rng)
        except Exception as e:  # noqa: BLE001
            failures.append({"problems": [f"raised {type(e).__name__}: {str(e)[:120]}"]})
        evals += 1
    print(json.dumps({"evaluations": evals, "distinct_nontrivial": evals, "n_failures": len(failures), "failures": failures[:4],
                      "bound": f"{n} seeded histories: <= 5 files in <= 3 levels, <= 5 mutations of 9 kinds (incl. same-size same-mtime atomic replacement, in-place append with the old mtime put back) between the old and the new index"}))


if __name__ == "__main__":
    main()
