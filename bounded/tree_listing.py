"""Bounded stand-in for the listing clauses of C03 that are outside the verifier's reach (pygtrie, json, sorted):

 (1) the identifier of a directory object does not depend on insertion order nor on file metadata;
 (2) two different entry sets never serialise to the same bytes / identifier;
 (3) serialising and re-parsing a listing is the identity (from_list . as_list, and Tree.load of the stored bytes);
 (4) the object obtained for a sub-directory (get_obj(prefix)) equals the object built directly from that sub-directory,
     for every prefix of the tree -- and there is none for a prefix that is no directory of the tree.

Entry sets are generated over a small alphabet of path components chosen so that sibling names textually extend one
another ('img', 'img_raw', 'im'), keys nest up to depth 4, digests repeat.

usage: tree_listing.py [N]  (seed from VERIF_SEED) -> JSON report, last line of stdout
"""
import logging; logging.disable(logging.CRITICAL)  # noqa: E702
import _memfs  # noqa: E402
import hashlib, itertools, json, os, random, sys, tempfile  # noqa: E401

SRC = os.environ.get("PYVC_REPO_SRC", "/repo/src")
sys.path.insert(0, SRC)
from dvc_objects.fs.local import LocalFileSystem  # noqa: E402

from dvc_data.hashfile.db import HashFileDB  # noqa: E402
from dvc_data.hashfile.hash_info import HashInfo  # noqa: E402
from dvc_data.hashfile.meta import Meta  # noqa: E402
from dvc_data.hashfile.tree import Tree  # noqa: E402

PARTS = ["img", "img_raw", "im", "a", "a.b", "train", "train2", "z", "a\\b", "caf\u00e9", "cafe\u0301", "cafz", "e\u0301x", "f", "\u00e9x", "A", "\U0001f600", ""]  # composed / decomposed twins are distinct names
DIGESTS = [hashlib.md5(bytes([i])).hexdigest() for i in range(5)]  # noqa: S324


def canonical_id(entries):
    """independent encoder of the statement: sorted (relpath, md5) pairs as json -> md5 + '.dir'"""
    lst = sorted(({"md5": d, "relpath": "/".join(k)} for k, d in entries.items()), key=lambda e: e["relpath"])
    return hashlib.md5(json.dumps(lst, sort_keys=True).encode()).hexdigest() + ".dir"  # noqa: S324


def rand_entries(rng):
    entries = {}
    for _ in range(rng.randint(1, 7)):
        key = tuple(rng.choice(PARTS) for _ in range(rng.randint(1, 4)))
        # a key must not be a proper prefix of another (files are leaves)
        if any(k[: len(key)] == key or key[: len(k)] == k for k in entries):
            continue
        entries[key] = rng.choice(DIGESTS)
    return entries


def build_tree(entries, order, with_meta):
    t = Tree()
    for i, k in enumerate(order):
        meta = Meta(size=i + 1, mtime=1000.0 + i, inode=77 + i) if with_meta else None
        t.add(k, meta, HashInfo("md5", entries[k]))
    t.digest()
    return t


def run_one(rng, odb):
    entries = rand_entries(rng)
    if not entries:
        return []
    keys = list(entries)
    probs = []
    want = canonical_id(entries)
    ids = set()
    for _ in range(3):
        order = keys[:]
        rng.shuffle(order)
        t = build_tree(entries, order, with_meta=rng.random() < 0.5)
        ids.add(t.hash_info.value)
    if ids != {want}:
        probs.append(f"(1) identifier depends on insertion order / metadata or is not the canonical one: {sorted(ids)} vs {want}")
    t = build_tree(entries, keys, with_meta=True)
    # (3) round trips
    for back in (Tree.from_list(t.as_list()), Tree.from_list(t.as_list(with_meta=True), hash_name="md5")):
        if sorted((k, hi.value) for k, _, hi in back) != sorted((k, entries[k]) for k in entries):
            probs.append("(3) from_list(as_list(t)) is not t")
    # a listing written WITH metadata parses back, given its hash name, to the same entries: metadata included (zero sizes too)
    tz = Tree()
    for i, k in enumerate(keys):
        tz.add(k, Meta(size=(0 if i % 2 == 0 else i), isexec=(i % 3 == 0), nfiles=None), HashInfo("md5", entries[k]))
    tz.digest()
    backz = {k: (m.size, m.isexec) for k, m, _ in Tree.from_list(tz.as_list(with_meta=True), hash_name="md5")}
    wantz = {k: (m.size, m.isexec) for k, m, _ in tz}
    if backz != wantz:
        bad = next(k for k in wantz if backz.get(k) != wantz[k])
        probs.append(f"(3) listing with metadata: entry {'/'.join(bad)} had (size, isexec)={wantz[bad]}, parsed back {backz.get(bad)}")
    odb.add(t.path, t.fs, t.oid)
    loaded = Tree.load(odb, t.hash_info)
    if sorted((k, hi.value) for k, _, hi in loaded) != sorted((k, entries[k]) for k in entries):
        probs.append("(3) Tree.load of the stored listing is not the listing")
    # (2) a neighbouring set must get another identifier
    other = dict(entries)
    k0 = rng.choice(keys)
    if rng.random() < 0.5 and len(other) > 1:
        del other[k0]
    else:
        other[k0] = next(d for d in DIGESTS if d != entries[k0])
    if canonical_id(other) == want or build_tree(other, list(other), False).hash_info.value == t.hash_info.value:
        probs.append("(2) two different entry sets share an identifier")
    # (4) every prefix
    prefixes = {k[:i] for k in keys for i in range(1, len(k))}
    non_dirs = {tuple(p) for p in itertools.product(PARTS[:3], repeat=1)} - prefixes - set(keys)
    for p in sorted(prefixes):
        sub = {k[len(p):]: d for k, d in entries.items() if k[: len(p)] == p}
        got = t.get_obj(odb, p)
        if got is None or got.hash_info.value != canonical_id(sub):
            probs.append(f"(4) get_obj({'/'.join(p)}) -> {getattr(getattr(got, 'hash_info', None), 'value', None)}, built directly: {canonical_id(sub)}")
    # (4') the same tree object after an entry was REPLACED (a file was edited and re-added under its key) and after one was added:
    # prefix queries made before must not leak into the answers given afterwards
    if prefixes:
        k1 = rng.choice([k for k in keys if len(k) > 1])
        entries2 = dict(entries)
        entries2[k1] = next(d for d in DIGESTS if d != entries[k1])
        t.add(k1, None, HashInfo("md5", entries2[k1]))
        knew = k1[:-1] + ("zz-new",)
        if rng.random() < 0.4 and not any(k[: len(knew)] == knew or knew[: len(k)] == k for k in entries2):
            entries2[knew] = DIGESTS[0]
            t.add(knew, None, HashInfo("md5", DIGESTS[0]))
        t.digest()
        if t.hash_info.value != canonical_id(entries2):
            probs.append("(4') after replacing / adding an entry the identifier is not the canonical one of the new listing")
        for p in sorted(prefixes):
            sub = {k[len(p):]: d for k, d in entries2.items() if k[: len(p)] == p}
            got = t.get_obj(odb, p)
            if got is None or got.hash_info.value != canonical_id(sub):
                probs.append(f"(4') after replacing {'/'.join(k1)}: get_obj({'/'.join(p)}) -> {getattr(getattr(got, 'hash_info', None), 'value', None)}, built directly: {canonical_id(sub)}")
                break
        t = build_tree(entries, keys, with_meta=True)
    for p in sorted(non_dirs):
        got = t.get_obj(odb, p)
        if got is not None:
            probs.append(f"(4) get_obj({'/'.join(p)}) returned an object for a prefix that is no directory of the tree")
    return [{"entries": {"/".join(k): v[:6] for k, v in entries.items()}, "problems": probs[:3]}] if probs else []


def main():
    n = int(sys.argv[1]) if len(sys.argv) > 1 else 300
    rng = random.Random(int(os.environ.get("VERIF_SEED", "1")))
    failures, evals = [], 0
    with tempfile.TemporaryDirectory(dir="/var/tmp") as tmp:
        for i in range(n):
            _memfs.reset()
            if i % 200 == 0:  # a fresh store every 200 cases: the stand-in's cost stays linear in n
                odb = HashFileDB(LocalFileSystem(), os.path.join(tmp, f"odb{i // 200}"))
            try:
                failures += run_one(rng, odb)
            except Exception as e:  # noqa: BLE001
                failures.append({"problems": [f"raised {type(e).__name__}: {str(e)[:120]}"]})
            evals += 1
    print(json.dumps({"evaluations": evals, "distinct_nontrivial": evals, "n_failures": len(failures), "failures": failures[:4],
                      "bound": f"{n} seeded entry sets: <= 7 files, depth <= 4, 17 path components (textual-extension siblings, composed/decomposed Unicode twins, upper case, astral, the empty component), 5 digests; "
                               "3 insertion orders each, every prefix, also after an entry of the same tree object was replaced / added"}))


if __name__ == "__main__":
    main()
