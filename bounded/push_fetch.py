"""Bounded stand-in (NOT a proof): collect + push + fetch through storage mappings on generated indexes.
Bound: <= 4 disjoint top-level prefixes, <= 3 remotes (prefixes may share a remote), <= 3 entries per prefix (files or
directory objects with <= 3 files, depth <= 2); n layouts per run (seeded)."""
import logging; logging.disable(logging.CRITICAL)
import _memfs  # noqa: E402
import hashlib, json, os, random, sys, tempfile
SRC = os.environ.get("PYVC_REPO_SRC", "/repo/src")
sys.path.insert(0, SRC)


def main(n, seed):
    from dvc_objects.fs.local import LocalFileSystem
    from dvc_data.hashfile.db import HashFileDB
    from dvc_data.hashfile.hash_info import HashInfo
    from dvc_data.hashfile.meta import Meta
    from dvc_data.index import DataIndex, DataIndexEntry, ObjectStorage
    from dvc_data.index.collect import collect
    from dvc_data.index.fetch import fetch
    from dvc_data.index.push import push

    rnd = random.Random(seed)
    fs = LocalFileSystem()
    md5 = lambda b: hashlib.md5(b).hexdigest()  # noqa: E731,S324
    fails, distinct = [], set()
    def add_dir(o, files):
        lst = []
        for rel, d in sorted(files.items()):
            o.add_bytes(md5(d), d); lst.append({"md5": md5(d), "relpath": rel})
        raw = json.dumps(lst, sort_keys=True).encode(); oid = md5(raw) + ".dir"; o.add_bytes(oid, raw)
        return oid

    def special(kind, case):
        """layouts the random generator does not produce"""
        with tempfile.TemporaryDirectory(dir="/var/tmp") as tmp:
            def odb(name, indexed=False):
                p = os.path.join(tmp, name); os.makedirs(p)
                return HashFileDB(fs, p, tmp_dir=os.path.join(tmp, "tmp-" + name)) if indexed else HashFileDB(fs, p)
            if kind == "shared-content-indexed":
                # remote indexes in use (tmp_dir), two remotes behind one cache, the same bytes inside a directory bound for R0 and
                # as a loose file bound for R1: each remote has to end up with its own copy
                cache, r0, r1 = odb("cache", True), odb("R0", True), odb("R1", True)
                shared = f"shared-{case}".encode()
                doid = add_dir(cache, {"x": shared, "y": f"y-{case}".encode()})
                cache.add_bytes(md5(shared), shared)
                idx = DataIndex({("a", "d"): DataIndexEntry(key=("a", "d"), meta=Meta(isdir=True), hash_info=HashInfo("md5", doid)),
                                 ("b", "f"): DataIndexEntry(key=("b", "f"), meta=Meta(), hash_info=HashInfo("md5", md5(shared)))})
                for pfx, rem in ((("a",), r0), (("b",), r1)):
                    idx.storage_map.add_cache(ObjectStorage(pfx, cache)); idx.storage_map.add_remote(ObjectStorage(pfx, rem))
                push(collect([idx], "remote", push=True))
                if md5(shared) not in set(r1.all()):
                    return "with remote indexes, the object shared between a directory on R0 and a loose file on R1 never reached R1"
            elif kind == "nested-prefix-first":
                # a remote registered at a prefix INSIDE a directory that the index holds only as an unloaded directory object,
                # registered before the root mapping
                cache, r0, r1 = odb("cache"), odb("R0"), odb("R1")
                files = {"sub/p": f"p-{case}".encode(), "sub/q": f"q-{case}".encode(), "top": f"t-{case}".encode()}
                doid = add_dir(cache, files)
                idx = DataIndex({("data",): DataIndexEntry(key=("data",), meta=Meta(isdir=True), hash_info=HashInfo("md5", doid))})
                idx.storage_map.add_remote(ObjectStorage(("data", "sub"), r1))  # the nested prefix is visited first
                idx.storage_map.add_cache(ObjectStorage((), cache))
                idx.storage_map.add_remote(ObjectStorage((), r0))
                push(collect([idx], "remote", push=True))
                want = {md5(files["sub/p"]), md5(files["sub/q"])}
                if not want <= set(r1.all()):
                    return "the remote designated for data/sub received nothing although the objects below it are reachable"
            elif kind == "remote-reset-with-index":
                # a remote with a local index of its contents (tmp_dir); after a complete push the remote loses everything behind our
                # back; the next push of the same data has to notice and deliver every object again
                cache, r0 = odb("cache", True), odb("R0", True)
                doid = add_dir(cache, {"x": f"x-{case}".encode(), "sub/y": f"y-{case}".encode()})
                loose = f"loose-{case}".encode(); cache.add_bytes(md5(loose), loose)  # noqa: E702
                def mk():
                    idx = DataIndex({("d",): DataIndexEntry(key=("d",), meta=Meta(isdir=True), hash_info=HashInfo("md5", doid)),
                                     ("f",): DataIndexEntry(key=("f",), meta=Meta(), hash_info=HashInfo("md5", md5(loose)))})
                    idx.storage_map.add_cache(ObjectStorage((), cache)); idx.storage_map.add_remote(ObjectStorage((), r0))  # noqa: E702
                    return idx
                push(collect([mk()], "remote", push=True))
                want = set(r0.all())
                for o in list(want):
                    os.unlink(r0.oid_to_path(o))
                pushed, failed = push(collect([mk()], "remote", push=True))
                if set(r0.all()) != want:
                    return f"after the remote was emptied, a second push (pushed={pushed}, failed={failed}) left {len(want - set(r0.all()))} of {len(want)} objects missing"
            elif kind == "fault-in-one-remote":
                # two remotes behind two prefixes; every upload of one object bound for ONE of them fails (each remote in turn):
                # pushed + failed add up to the objects that had to move, and failed counts what did not arrive
                for victim_remote in (0, 1):
                    sub = os.path.join(tmp, f"v{victim_remote}"); os.makedirs(sub)

                    class FFS(LocalFileSystem):
                        fail: set = set()

                        def put_file(self, from_file, to_info, callback=None, **kw):
                            if any(o in str(to_info).replace(os.sep, "") for o in self.fail):
                                raise OSError(5, "injected upload fault", str(to_info))
                            return super().put_file(from_file, to_info, callback=callback, **kw)

                    cache = HashFileDB(fs, os.path.join(sub, "cache")); os.makedirs(cache.path)
                    rems = [HashFileDB(FFS() if i == victim_remote else fs, os.path.join(sub, f"R{i}")) for i in (0, 1)]
                    for r in rems:
                        os.makedirs(r.path)
                    objs = {}
                    for i, pfx in enumerate(("a", "b")):
                        for j in range(2):
                            d = f"{case}-{pfx}-{j}".encode(); cache.add_bytes(md5(d), d); objs[(pfx, f"f{j}")] = md5(d)
                    FFS.fail = {objs[(("a", "b")[victim_remote], "f0")]}
                    idx = DataIndex({k: DataIndexEntry(key=k, meta=Meta(), hash_info=HashInfo("md5", o)) for k, o in objs.items()})
                    for i, pfx in enumerate(("a", "b")):
                        idx.storage_map.add_cache(ObjectStorage((pfx,), cache)); idx.storage_map.add_remote(ObjectStorage((pfx,), rems[i]))
                    pushed, failed = push(collect([idx], "remote", push=True))
                    arrived = len(set(rems[0].all())) + len(set(rems[1].all()))
                    if pushed + failed != 4 or failed != 4 - arrived:
                        return (f"two remotes, an upload to R{victim_remote} fails: pushed={pushed} failed={failed}, but 4 objects had to move and "
                                f"{4 - arrived} did not arrive")
            elif kind == "verifying-remote-corrupt":
                # the REMOTE is configured to verify what is downloaded from it (the cache is not); one of its objects holds other
                # bytes than its name says: fetch must not leave those bytes in the cache nor count the object as fetched
                cache, r0 = odb("cache"), odb("R0")
                r0.verify = True
                good, bad = f"good-{case}".encode(), f"bad-{case}".encode()
                r0.add_bytes(md5(good), good)
                bp = r0.oid_to_path(md5(bad)); os.makedirs(os.path.dirname(bp), exist_ok=True); open(bp, "wb").write(b"not what the name says")
                idx = DataIndex({("p", "g"): DataIndexEntry(key=("p", "g"), meta=Meta(), hash_info=HashInfo("md5", md5(good))),
                                 ("p", "b"): DataIndexEntry(key=("p", "b"), meta=Meta(), hash_info=HashInfo("md5", md5(bad)))})
                idx.storage_map.add_cache(ObjectStorage(("p",), cache)); idx.storage_map.add_remote(ObjectStorage(("p",), r0))
                nf, ff = fetch(collect([idx], "remote"))
                wrong = [o for o in cache.all() if md5(open(cache.oid_to_path(o), "rb").read()) != o]
                if wrong:
                    return f"fetch from a verifying remote left an object in the cache whose bytes do not match its name (fetched={nf}, failed={ff})"
                if md5(good) not in set(cache.all()) or ff < 1:
                    return f"fetch from a verifying remote with one corrupt object: fetched={nf} failed={ff}, intact object in cache: {md5(good) in set(cache.all())}"
            else:
                # a partial local cache: the directory object is cached, one listed file is in neither cache nor remote: the
                # directory must be withheld and reported, never uploaded without the file
                cache, r0 = odb("cache"), odb("R0")
                files = {"x": f"x-{case}".encode(), "gone": f"gone-{case}".encode()}
                doid = add_dir(cache, files)
                gp = cache.oid_to_path(md5(files["gone"])); os.chmod(gp, 0o644); os.unlink(gp)
                idx = DataIndex({("d",): DataIndexEntry(key=("d",), meta=Meta(isdir=True), hash_info=HashInfo("md5", doid))})
                idx.storage_map.add_cache(ObjectStorage((), cache)); idx.storage_map.add_remote(ObjectStorage((), r0))
                pushed, failed = push(collect([idx], "remote", push=True))
                have = set(r0.all())
                if doid in have and md5(files["gone"]) not in have:
                    return "the remote holds the directory object without a file it lists (file missing from the cache)"
                if failed == 0:
                    return "a directory that could not be delivered completely was not reported as failed"
        return None

    KINDS = ["shared-content-indexed", "nested-prefix-first", "partial-cache", "fault-in-one-remote", "verifying-remote-corrupt", "remote-reset-with-index"]
    for case in range(n):
        _memfs.reset()
        if case % 5 == 4:
            kind = KINDS[(case // 5) % len(KINDS)]
            try:
                pr = special(kind, case)
            except Exception as e:  # noqa: BLE001
                pr = "raised " + repr(e)
            distinct.add((kind, case))
            if pr:
                fails.append({"prefix->remote": kind, "entries": {}, "problems": [pr]})
            continue
        with tempfile.TemporaryDirectory(dir="/var/tmp") as tmp:
            def odb(name):
                p = os.path.join(tmp, name); os.makedirs(p); return HashFileDB(fs, p)
            cache, fetched = odb("cache"), odb("fetched")
            remotes = [odb(f"R{i}") for i in range(rnd.randint(1, 3))]
            prefixes = rnd.sample(["a", "b", "c", "d"], rnd.randint(1, 4))
            assign = {p: rnd.randrange(len(remotes)) for p in prefixes}
            spec, reach = {}, {i: set() for i in range(len(remotes))}
            ctr = 0
            for p in prefixes:
                for e in range(rnd.randint(1, 3)):
                    ctr += 1
                    if rnd.random() < 0.5:
                        data = f"{case}-{ctr}".encode(); oid = md5(data); cache.add_bytes(oid, data)
                        reach[assign[p]].add(oid)
                    else:
                        files = {}
                        for f in range(rnd.randint(1, 3)):
                            rel = "/".join(rnd.choice("xy") + str(f) for _ in range(rnd.randint(1, 2)))
                            files[rel] = f"{case}-{ctr}-{f}-{rnd.choice('PQ')}".encode()
                        lst = []
                        for rel, d in sorted(files.items()):
                            cache.add_bytes(md5(d), d); lst.append({"md5": md5(d), "relpath": rel}); reach[assign[p]].add(md5(d))
                        raw = json.dumps(lst, sort_keys=True).encode(); oid = md5(raw) + ".dir"; cache.add_bytes(oid, raw)
                        reach[assign[p]].add(oid)
                    spec[(p, f"e{e}")] = oid

            def make(cache_odb):
                idx = DataIndex({k: DataIndexEntry(key=k, meta=Meta(isdir=o.endswith(".dir")), hash_info=HashInfo("md5", o)) for k, o in spec.items()})
                for p in prefixes:
                    idx.storage_map.add_cache(ObjectStorage((p,), cache_odb))
                    idx.storage_map.add_remote(ObjectStorage((p,), remotes[assign[p]]))
                return idx
            distinct.add((tuple(sorted(assign.items())), len(spec)))
            problems = []
            try:
                pushed, failed = push(collect([make(cache)], "remote", push=True))
                for i, r in enumerate(remotes):
                    got = set(r.all())
                    if not reach[i] <= got:
                        problems.append(f"remote R{i} misses {len(reach[i] - got)} reachable objects after push")
                total = len(set().union(*reach.values())) if len({assign[p] for p in prefixes}) == 1 else sum(len(reach[i]) for i in reach)
                if failed != 0 or pushed != sum(len(reach[i]) for i in reach):
                    problems.append(f"counts: pushed={pushed} failed={failed}, objects that had to move={sum(len(reach[i]) for i in reach)}")
                if not problems:
                    nf, ff = fetch(collect([make(fetched)], "remote"))
                    exp = set().union(*reach.values())
                    if set(fetched.all()) != exp or ff != 0:
                        problems.append("fetch into an empty cache did not bring back exactly the reachable set")
            except Exception as e:  # noqa: BLE001
                problems.append("raised " + repr(e))
            if problems:
                fails.append({"prefix->remote": assign, "entries": {"/".join(k): v for k, v in spec.items()}, "problems": problems})
    return {"evaluations": n, "distinct_nontrivial": len(distinct), "failures": fails[:2], "n_failures": len(fails),
            "bound": "<= 4 disjoint top-level prefixes, <= 3 remotes, <= 3 entries per prefix, directory objects with <= 3 files; every fifth: remote indexes with shared content / a storage prefix inside an unloaded directory / a partial cache / an upload fault in one of two remotes / a verifying remote holding a corrupt object / a remote emptied behind its local index"}


if __name__ == "__main__":
    print(json.dumps(main(int(sys.argv[1]) if len(sys.argv) > 1 else 30, int(os.environ.get("VERIF_SEED", "0") or 0)), default=str))
