"""Bounded stand-in (NOT a proof): collect + push + fetch through storage mappings on generated indexes.
Bound: <= 4 disjoint top-level prefixes, <= 3 remotes (prefixes may share a remote), <= 3 entries per prefix (files or
directory objects with <= 3 files, depth <= 2); n layouts per run (seeded)."""
import logging; logging.disable(logging.CRITICAL)
import hashlib, json, os, random, sys, tempfile
SRC = os.environ.get("PYVC_REPO_SRC", "/repo/src")
sys.path.insert(0, SRC)


def main(n, seed):
    from dvc_objects.fs.local import LocalFileSystem
    from dvc_data.hashfile.db import HashFileDB
    from dvc_data.hashfile.hash_info import HashInfo
    from dvc_data.hashfile.meta import Meta
    from dvc_data.index import DataIndex, DataIndexEntry, ObjectStorage
    from dvc_data.index.collect import collect
    from dvc_data.index.fetch import fetch
    from dvc_data.index.push import push

    rnd = random.Random(seed)
    fs = LocalFileSystem()
    md5 = lambda b: hashlib.md5(b).hexdigest()  # noqa: E731,S324
    fails, distinct = [], set()
    for case in range(n):
        with tempfile.TemporaryDirectory(dir="/var/tmp") as tmp:
            def odb(name):
                p = os.path.join(tmp, name); os.makedirs(p); return HashFileDB(fs, p)
            cache, fetched = odb("cache"), odb("fetched")
            remotes = [odb(f"R{i}") for i in range(rnd.randint(1, 3))]
            prefixes = rnd.sample(["a", "b", "c", "d"], rnd.randint(1, 4))
            assign = {p: rnd.randrange(len(remotes)) for p in prefixes}
            spec, reach = {}, {i: set() for i in range(len(remotes))}
            ctr = 0
            for p in prefixes:
                for e in range(rnd.randint(1, 3)):
                    ctr += 1
                    if rnd.random() < 0.5:
                        data = f"{case}-{ctr}".encode(); oid = md5(data); cache.add_bytes(oid, data)
                        reach[assign[p]].add(oid)
                    else:
                        files = {}
                        for f in range(rnd.randint(1, 3)):
                            rel = "/".join(rnd.choice("xy") + str(f) for _ in range(rnd.randint(1, 2)))
                            files[rel] = f"{case}-{ctr}-{f}-{rnd.choice('PQ')}".encode()
                        lst = []
                        for rel, d in sorted(files.items()):
                            cache.add_bytes(md5(d), d); lst.append({"md5": md5(d), "relpath": rel}); reach[assign[p]].add(md5(d))
                        raw = json.dumps(lst, sort_keys=True).encode(); oid = md5(raw) + ".dir"; cache.add_bytes(oid, raw)
                        reach[assign[p]].add(oid)
                    spec[(p, f"e{e}")] = oid

            def make(cache_odb):
                idx = DataIndex({k: DataIndexEntry(key=k, meta=Meta(isdir=o.endswith(".dir")), hash_info=HashInfo("md5", o)) for k, o in spec.items()})
                for p in prefixes:
                    idx.storage_map.add_cache(ObjectStorage((p,), cache_odb))
                    idx.storage_map.add_remote(ObjectStorage((p,), remotes[assign[p]]))
                return idx
            distinct.add((tuple(sorted(assign.items())), len(spec)))
            problems = []
            try:
                pushed, failed = push(collect([make(cache)], "remote", push=True))
                for i, r in enumerate(remotes):
                    got = set(r.all())
                    if not reach[i] <= got:
                        problems.append(f"remote R{i} misses {len(reach[i] - got)} reachable objects after push")
                total = len(set().union(*reach.values())) if len({assign[p] for p in prefixes}) == 1 else sum(len(reach[i]) for i in reach)
                if failed != 0 or pushed != sum(len(reach[i]) for i in reach):
                    problems.append(f"counts: pushed={pushed} failed={failed}, objects that had to move={sum(len(reach[i]) for i in reach)}")
                if not problems:
                    nf, ff = fetch(collect([make(fetched)], "remote"))
                    exp = set().union(*reach.values())
                    if set(fetched.all()) != exp or ff != 0:
                        problems.append("fetch into an empty cache did not bring back exactly the reachable set")
            except Exception as e:  # noqa: BLE001
                problems.append("raised " + repr(e))
            if problems:
                fails.append({"prefix->remote": assign, "entries": {"/".join(k): v for k, v in spec.items()}, "problems": problems})
    return {"evaluations": n, "distinct_nontrivial": len(distinct), "failures": fails[:2], "n_failures": len(fails),
            "bound": "<= 4 disjoint top-level prefixes, <= 3 remotes, <= 3 entries per prefix, directory objects with <= 3 files"}


if __name__ == "__main__":
    print(json.dumps(main(int(sys.argv[1]) if len(sys.argv) > 1 else 30, int(os.environ.get("VERIF_SEED", "0") or 0)), default=str))
