"""Bounded stand-in for hash._hash_file (assumed in the proofs): the digest obtained for a file equals the reference digest of
its current bytes under the REQUESTED algorithm whatever filesystem it is read through -- a local filesystem (no checksum
in info()), and the index adaptor DataFileSystem whose info() carries the entry's md5 (the fs-supplied shortcut).

contents: LF text, CRLF text, binary with CRLF, empty, around the 512-byte sniffing window; algorithms md5, md5-dos2unix,
sha256, sha1; caller-supplied info or not.

usage: hash_file_fs.py [N]  (seed from VERIF_SEED) -> JSON report, last line of stdout
"""
import logging; logging.disable(logging.CRITICAL)  # noqa: E702
import hashlib, json, os, random, sys, tempfile  # noqa: E401

SRC = os.environ.get("PYVC_REPO_SRC", "/repo/src")
sys.path.insert(0, SRC)
from dvc_objects.fs.local import LocalFileSystem  # noqa: E402

from dvc_data.fs import DataFileSystem  # noqa: E402
from dvc_data.hashfile.hash import hash_file  # noqa: E402
from dvc_data.hashfile.hash_info import HashInfo  # noqa: E402
from dvc_data.hashfile.istextfile import istextblock  # noqa: E402
from dvc_data.index import DataIndex, DataIndexEntry, FileStorage  # noqa: E402

ALGS = ["md5", "md5-dos2unix", "sha256", "sha1"]


def ref(alg, data):
    if alg == "md5-dos2unix":
        if istextblock(data[:512]):  # the classification rule itself is proved (C14: istextblock)
            data = data.replace(b"\r\n", b"\n")
        return hashlib.md5(data).hexdigest()  # noqa: S324
    return hashlib.new(alg, data).hexdigest()


def contents(rng):
    base = [b"first\nsecond\n" * rng.randint(1, 4), b"first\r\nsecond\r\n" * rng.randint(1, 4), b"\x00\x01\r\n\xff" * rng.randint(1, 9), b"",
            b"a" * 510 + b"\r\n" + b"b" * rng.randint(0, 5), os.urandom(rng.randint(1, 30)), b"t\r\n" + bytes(rng.randrange(32, 127) for _ in range(20))]
    return rng.sample(base, rng.randint(2, len(base)))


def main():
    n = int(sys.argv[1]) if len(sys.argv) > 1 else 60
    rng = random.Random(int(os.environ.get("VERIF_SEED", "1")))
    lfs = LocalFileSystem()
    failures, evals = [], 0
    for _ in range(n):
        with tempfile.TemporaryDirectory(dir="/var/tmp") as tmp:
            datas = contents(rng)
            entries = {}
            for i, d in enumerate(datas):
                open(os.path.join(tmp, f"f{i}"), "wb").write(d)
                entries[(f"f{i}",)] = DataIndexEntry(key=(f"f{i}",), hash_info=HashInfo("md5", hashlib.md5(d).hexdigest()))  # noqa: S324
            index = DataIndex(entries)
            index.storage_map.add_data(FileStorage((), lfs, tmp))
            dfs = DataFileSystem(index)
            for i, d in enumerate(datas):
                for label, fs, path in (("local", lfs, os.path.join(tmp, f"f{i}")), ("datafs", dfs, f"/f{i}")):
                    alg = rng.choice(ALGS)
                    info = fs.info(path) if rng.random() < 0.5 else None
                    evals += 1
                    try:
                        _, hi = hash_file(path, fs, alg, info=info)
                        got = (hi.name, hi.value)
                    except Exception as e:  # noqa: BLE001
                        got = ("error", type(e).__name__)
                    if got != (alg, ref(alg, d)):
                        failures.append({"fs": label, "algorithm": alg, "content": repr(d[:24]), "got": got, "want": ref(alg, d)})
    print(json.dumps({"evaluations": evals, "distinct_nontrivial": evals, "n_failures": len(failures), "failures": failures[:4],
                      "bound": f"{n} seeded file sets (2-7 contents incl. CRLF/LF/binary/empty/window edge) x 2 filesystems (local, index adaptor with md5 in info) x 4 algorithms"}))


if __name__ == "__main__":
    main()
