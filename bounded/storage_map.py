"""Bounded stand-in (NOT a proof): StorageMapping.__getitem__ against the statement's rule -- per role, the storage of the
LONGEST mapped prefix of the key that defines that role; StorageKeyError iff no mapped prefix.
Bound: keys/prefixes of depth <= 4 over {a,b}, <= 6 mapped prefixes; n random cases (seeded)."""
import logging; logging.disable(logging.CRITICAL)
import json, os, random, sys
SRC = os.environ.get("PYVC_REPO_SRC", "/repo/src")
sys.path.insert(0, SRC)


def main(n, seed):
    from dvc_data.index.index import StorageInfo, StorageKeyError, StorageMapping

    rnd = random.Random(seed)
    fails, distinct = [], set()
    for _ in range(n):
        sm = StorageMapping()
        spec = {}
        for _ in range(rnd.randint(0, 6)):
            p = tuple(rnd.choice("ab") for _ in range(rnd.randint(0, 3)))
            info = {r: (object() if rnd.random() < 0.6 else None) for r in ("data", "cache", "remote")}
            spec[p] = info
            sm[p] = StorageInfo(**info)
        key = tuple(rnd.choice("ab") for _ in range(rnd.randint(0, 4)))
        distinct.add((tuple(sorted(spec)), key))
        prefixes = sorted((p for p in spec if key[: len(p)] == p), key=len, reverse=True)
        try:
            got = sm[key]
            if not prefixes:
                fails.append({"key": key, "map": sorted(spec), "problem": "no mapped prefix but no StorageKeyError"})
                continue
            for role in ("data", "cache", "remote"):
                exp = next((spec[p][role] for p in prefixes if spec[p][role] is not None), None)
                if getattr(got, role) is not exp:
                    fails.append({"key": key, "map": sorted(spec), "problem": f"role {role}: not the storage of the longest prefix defining it"})
        except StorageKeyError:
            if prefixes:
                fails.append({"key": key, "map": sorted(spec), "problem": "StorageKeyError although a mapped prefix exists"})
    return {"evaluations": n, "distinct_nontrivial": len(distinct), "failures": fails[:3], "n_failures": len(fails),
            "bound": "prefix/key depth <= 4 over {a,b}, <= 6 mapped prefixes"}


if __name__ == "__main__":
    print(json.dumps(main(int(sys.argv[1]) if len(sys.argv) > 1 else 500, int(os.environ.get("VERIF_SEED", "0") or 0)), default=str))
