"""Bounded stand-in for C13 at the level of build._get_hashes / State.get_many / hash_file (real sqlite state).

Histories of file mutations (rewrite, same-size rewrite, append, touch, atomic replace, delete + re-create)
interleaved with hash queries -- single (hash_file with state), batched (_get_hashes, across the 999-parameter
boundary), under several algorithms, with caller-supplied or freshly read stat information.
Oracle: every hash returned for a path equals hashlib over the file's CURRENT bytes under the REQUESTED
algorithm, and is labelled with that algorithm; batch and single lookups agree.

usage: state_hashes.py [N]   (seed from VERIF_SEED) -> JSON report, last line of stdout
"""
import logging; logging.disable(logging.CRITICAL)  # noqa: E702
import _memfs  # noqa: E402
import hashlib, json, os, random, sys, tempfile, time  # noqa: E401

SRC = os.environ.get("PYVC_REPO_SRC", "/repo/src")
sys.path.insert(0, SRC)
from dvc_objects.fs.local import LocalFileSystem  # noqa: E402

from dvc_data.hashfile.build import _get_hashes  # noqa: E402
from dvc_data.hashfile.hash import hash_file  # noqa: E402
from dvc_data.hashfile.state import State  # noqa: E402

FS = LocalFileSystem()
SEEN_INODES: dict = {}
ALGS = ["md5", "md5-dos2unix", "sha256"]


def expect(alg, data):
    if alg == "md5-dos2unix":
        # text files (no NUL in the first 512 bytes ... see istextblock) are hashed with CRLF -> LF
        from dvc_data.hashfile.istextfile import istextblock  # the classification itself is C14's subject

        if istextblock(data[:512]):
            data = data.replace(b"\r\n", b"\n")
        return hashlib.md5(data).hexdigest()  # noqa: S324
    return hashlib.new(alg, data).hexdigest()


def mutate(rng, path, clock):
    """one user action on the file; returns a label.  mtimes are set explicitly so that histories do not depend on
    timer resolution: every write moves mtime forward by at least 1 s, except 'touch_back' which restores an old one."""
    kind = rng.choice(["rewrite", "same_size", "append", "touch", "replace", "replace_keep_mtime", "recreate", "crlf"])
    old = open(path, "rb").read() if os.path.exists(path) else b""
    if kind == "rewrite":
        data = os.urandom(rng.randint(1, 40))
    elif kind == "same_size":
        data = bytes((b + 1) % 256 for b in old) or b"x"
    elif kind == "append":
        data = old + b"+more"
    elif kind == "crlf":
        data = b"line one\r\nline two\r\n" + str(rng.randrange(5)).encode()
    else:
        data = old
    if kind == "replace_keep_mtime" and old:  # same size, same mtime, new inode: only the inode tells
        st = os.stat(path)
        tmp = path + ".new"
        open(tmp, "wb").write(bytes((b + 3) % 256 for b in old))
        os.replace(tmp, path)
        os.utime(path, ns=(st.st_atime_ns, st.st_mtime_ns))
        if os.stat(path).st_ino in SEEN_INODES.setdefault(path, set()) or os.stat(path).st_ino == st.st_ino:
            # the filesystem handed an old inode number back: (inode, mtime, size) would all be unchanged, which the
            # statement's histories exclude -- move the mtime instead
            clock[0] += 1
            os.utime(path, (clock[0], clock[0]))
        SEEN_INODES[path].update((st.st_ino, os.stat(path).st_ino))
        return kind
    if kind == "replace":  # atomic replacement: new inode
        data = os.urandom(len(old) or 3)
        tmp = path + ".new"
        open(tmp, "wb").write(data)
        os.replace(tmp, path)
    elif kind == "recreate":
        if os.path.exists(path):
            os.unlink(path)
        data = os.urandom(rng.randint(1, 10))
        open(path, "wb").write(data)
    elif kind != "touch":
        open(path, "wb").write(data)
    clock[0] += rng.choice([1, 2, 3600])
    os.utime(path, (clock[0], clock[0]))
    return kind


def run_history(rng, nfiles, steps):
    failures = []
    with tempfile.TemporaryDirectory(dir="/var/tmp") as tmp:
        ws = os.path.join(tmp, "ws")
        os.makedirs(ws)
        state = State(ws, os.path.join(tmp, "state"))
        paths = [os.path.join(ws, f"f{i:04d}") for i in range(nfiles)]
        clock = [int(time.time()) - 10_000_000]
        for p in paths:
            open(p, "wb").write(os.urandom(8) if rng.random() < 0.7 else b"text\r\nfile\r\n")
            os.utime(p, (clock[0], clock[0]))
        log = []
        try:
            for _ in range(steps):
                op = rng.choice(["mutate", "mutate", "single", "batch", "batch"])
                if op == "mutate":
                    for p in rng.sample(paths, max(1, len(paths) // 4)):
                        log.append((mutate(rng, p, clock), os.path.basename(p)))
                elif op == "single":
                    p, alg = rng.choice(paths), rng.choice(ALGS)
                    info = FS.info(p) if rng.random() < 0.5 else None
                    _, hi = hash_file(p, FS, alg, state=state, info=info)
                    log.append(("single", alg, os.path.basename(p)))
                    want = expect(alg, open(p, "rb").read())
                    if hi.name != alg or hi.value != want:
                        failures.append({"history": log[-12:], "problem": f"hash_file({os.path.basename(p)}, {alg}) -> {hi.name}:{hi.value}, current bytes hash to {want}"})
                        break
                else:
                    alg = rng.choice(ALGS)
                    sub = paths if rng.random() < 0.5 else rng.sample(paths, max(1, len(paths) // 2))
                    infos = {p: FS.info(p) for p in sub}
                    raced = set()
                    cb = None
                    if rng.random() < 0.3 and len(sub) <= 6:
                        # a writer that is active WHILE the batch runs: right after a file was hashed (progress callback)
                        # some file of the batch is rewritten in place (same size, newer mtime).  The hash returned for it
                        # by this very batch may be the old one (a race the statement does not exclude); what must never
                        # happen is that the old hash is vouched for afterwards (checked by the later, quiet queries).
                        from fsspec.callbacks import Callback as _CB

                        class Writer(_CB):
                            def call(self, *a, **k):
                                q = rng.choice(sub)
                                old_ = open(q, "rb").read()
                                open(q, "wb").write(bytes((b + 1) % 256 for b in old_) or b"x")
                                clock[0] += 1
                                os.utime(q, (clock[0], clock[0]))
                                raced.add(q)

                        cb = Writer()
                    res = _get_hashes(list(sub), FS, alg, infos, state=state, callback=cb)
                    log.append(("batch" if cb is None else "batch+concurrent-writer", alg, len(sub)))
                    bad = None
                    if set(res) != set(sub):
                        bad = f"_get_hashes returned {len(res)} paths for {len(sub)} requested"
                    for p in sub:
                        if bad:
                            break
                        if p in raced:
                            continue
                        _, hi, _ = res[p]
                        want = expect(alg, open(p, "rb").read())
                        if hi.name != alg or hi.value != want:
                            bad = f"_get_hashes({alg})[{os.path.basename(p)}] -> {hi.name}:{hi.value}, current bytes hash to {want}"
                    if bad:
                        failures.append({"history": log[-12:], "problem": bad})
                        break
        finally:
            state.close()
    return failures


def parallel_batch(rng):
    """the unordered parallel hashing path: several files above the large-file threshold, more than one worker, and a first
    file that takes far longer than the others (results arrive out of submission order)"""
    with tempfile.TemporaryDirectory(dir="/var/tmp") as tmp:
        paths = []
        for i in range(rng.randint(3, 6)):
            p = os.path.join(tmp, f"big{i}")
            open(p, "wb").write(os.urandom(6_000_000 if i == 0 else rng.randint(200, 2000)))
            paths.append(p)
        infos = {p: FS.info(p) for p in paths}
        alg = rng.choice(ALGS)
        res = _get_hashes(list(paths), FS, alg, infos, state=None, jobs=4, large_file_threshold=100)
        for p in paths:
            _, hi, _ = res[p]
            want = expect(alg, open(p, "rb").read())
            if hi.name != alg or hi.value != want:
                return [{"history": [("parallel batch", alg, len(paths))],
                         "problem": f"_get_hashes(jobs=4, large files)[{os.path.basename(p)}] -> {hi.value}, current bytes hash to {want}"}]
    return []


def main():
    n = int(sys.argv[1]) if len(sys.argv) > 1 else 40
    rng = random.Random(int(os.environ.get("VERIF_SEED", "1")))
    failures, evals = [], 0
    for i in range(n):
        _memfs.reset()
        big = i % 10 == 9  # every tenth history crosses the 999-parameter SQL boundary
        nfiles = 1100 if big else rng.randint(1, 6)
        try:
            fs_ = run_history(rng, nfiles, 6 if big else rng.randint(4, 14))
        except Exception as e:  # noqa: BLE001  (a lookup raised where the statement promises an answer)
            fs_ = [{"history": [("files", nfiles)], "problem": f"raised {type(e).__name__}: {str(e)[:120]}"}]
        evals += 1
        failures.extend(fs_)
        if i % 8 == 0:
            failures.extend(parallel_batch(rng))
    print(json.dumps({"evaluations": evals, "distinct_nontrivial": evals, "n_failures": len(failures), "failures": failures[:4],
                      "bound": f"{n} seeded histories of <= 14 steps over <= 6 files (every tenth: 1100 files, 6 steps), 3 algorithms, 8 kinds of file mutation; every eighth: a parallel batch of large files (jobs=4)"}))


if __name__ == "__main__":
    main()
