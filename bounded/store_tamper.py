"""Bounded stand-in next to the proofs of C07 (check / oids_exist / add): histories on ONE store handle.

The proofs are per call and model the store object as (fs, path, hash_name, state, ...): state that a handle may keep between
calls (memoised answers, cached prefix sets) and unusual mode bits are outside their model.  Here: add objects, query, tamper
(truncate, append, rewrite same length, rewrite other length, replace by rename; left writable, with odd modes such as
0o464, or write-protected), query again through the SAME handle and through a fresh one, with the hash-state cache absent,
cold, warm or holding an entry from before the tampering.
Oracle (the statement): an object whose bytes no longer match its name and whose mode is not exactly 0o444 is never reported
as valid -- check() raises ObjectFormatError and the file is gone, oids_exist() does not list it and the file is gone; an
intact object is never rejected or deleted, and after a successful check of a local store it is read-only; objects added
through another handle are seen.

usage: store_tamper.py [N]  (seed from VERIF_SEED) -> JSON report, last line of stdout
"""
import logging; logging.disable(logging.CRITICAL)  # noqa: E702
import hashlib, json, os, random, stat, sys, tempfile  # noqa: E401

SRC = os.environ.get("PYVC_REPO_SRC", "/repo/src")
sys.path.insert(0, SRC)
from dvc_objects.errors import ObjectFormatError  # noqa: E402
from dvc_objects.fs.local import LocalFileSystem  # noqa: E402

from dvc_data.hashfile.db import HashFileDB  # noqa: E402
from dvc_data.hashfile.db.local import LocalHashFileDB  # noqa: E402
from dvc_data.hashfile.state import State  # noqa: E402

FS = LocalFileSystem()


def md5(b):
    return hashlib.md5(b).hexdigest()  # noqa: S324


def tamper(rng, path):
    old = open(path, "rb").read()
    kind = rng.choice(["truncate", "append", "same_len", "other_len", "rename"])
    new = {"truncate": old[: len(old) // 2], "append": old + b"!", "same_len": bytes((b + 1) % 256 for b in old) or b"x",
           "other_len": old + old + b"?", "rename": b"replaced " + old}[kind]
    os.chmod(path, 0o644)
    if kind == "rename":
        tmp = path + ".new"
        open(tmp, "wb").write(new)
        os.replace(tmp, path)
    else:
        open(path, "wb").write(new)
    mode = rng.choice([0o644, 0o644, 0o664, 0o464, 0o446, 0o444])
    os.chmod(path, mode)
    return kind, mode


def run_history(rng, i):
    cls = (LocalHashFileDB, HashFileDB)[i % 3 == 2]
    with_state = i % 2 == 0
    probs, log = [], []
    with tempfile.TemporaryDirectory(dir="/var/tmp") as tmp:
        state = State(tmp, os.path.join(tmp, "state")) if with_state else None
        try:
            kw = {"state": state} if state else {}
            odb = cls(FS, os.path.join(tmp, "odb"), **kw)
            other = cls(FS, os.path.join(tmp, "odb"), **kw)  # a second handle on the same store (another process)
            datas = [os.urandom(rng.randint(1, 30)) + bytes([j]) for j in range(rng.randint(2, 5))]
            listing = json.dumps([{"md5": md5(d), "relpath": f"f{j}"} for j, d in enumerate(datas)], sort_keys=True).encode()
            objs = {md5(d): d for d in datas}
            objs[md5(listing) + ".dir"] = listing
            first = sorted(objs)[: max(1, len(objs) // 2)]
            for o in first:
                odb.add_bytes(o, objs[o])
            for o in sorted(set(objs) - set(first)):
                (other if rng.random() < 0.5 else odb).add_bytes(o, objs[o])  # arrives through the other handle, new prefixes
            tampered = {}
            for _ in range(rng.randint(2, 6)):
                op = rng.choice(["exist", "exist", "check", "tamper", "exist_fresh"])
                if op == "tamper":
                    o = rng.choice(sorted(objs))
                    p = odb.oid_to_path(o)
                    if os.path.exists(p):
                        tampered[o] = tamper(rng, p)
                        log.append(("tamper", o[:6], tampered[o]))
                    continue
                handle = cls(FS, os.path.join(tmp, "odb"), **kw) if op == "exist_fresh" else odb
                present = {o for o in objs if os.path.exists(odb.oid_to_path(o))}
                bad = {o for o in present if open(odb.oid_to_path(o), "rb").read() != objs[o]}
                unprot_bad = {o for o in bad if stat.S_IMODE(os.stat(odb.oid_to_path(o)).st_mode) != 0o444}
                if op in ("exist", "exist_fresh"):
                    got = set(handle.oids_exist(sorted(objs)))
                    log.append((op, len(got)))
                    if cls is LocalHashFileDB:
                        if got & unprot_bad:
                            probs.append(f"oids_exist lists tampered, not write-protected objects {sorted(x[:6] for x in got & unprot_bad)}")
                        left = {o for o in unprot_bad if os.path.exists(odb.oid_to_path(o))}
                        if left and not probs:
                            probs.append(f"oids_exist left tampered, not write-protected objects in the store {sorted(x[:6] for x in left)}")
                    missing_good = (present - bad) - got
                    if missing_good:
                        probs.append(f"oids_exist does not list intact objects that are in the store {sorted(x[:6] for x in missing_good)}")
                    gone_good = {o for o in present - bad if not os.path.exists(odb.oid_to_path(o))}
                    if gone_good:
                        probs.append(f"an existence query deleted intact objects {sorted(x[:6] for x in gone_good)}")
                else:
                    o = rng.choice(sorted(objs))
                    p = odb.oid_to_path(o)
                    was_bad, was_unprot = o in bad, o in unprot_bad
                    try:
                        handle.check(o)
                        outcome = "accepted"
                    except ObjectFormatError:
                        outcome = "rejected"
                    except FileNotFoundError:
                        outcome = "missing"
                    log.append(("check", o[:6], outcome))
                    if o in present:
                        trusting = cls is LocalHashFileDB and not was_unprot and was_bad  # write-protected: trusted by design
                        if was_bad and not trusting and (outcome != "rejected" or os.path.exists(p)):
                            probs.append(f"check({o[:6]}) of a tampered, not write-protected object: {outcome}, file still there: {os.path.exists(p)}")
                        if not was_bad and (outcome != "accepted" or not os.path.exists(p)):
                            probs.append(f"check({o[:6]}) of an intact object: {outcome}, file there: {os.path.exists(p)}")
                        if not was_bad and outcome == "accepted" and cls is LocalHashFileDB and stat.S_IMODE(os.stat(p).st_mode) != 0o444:
                            probs.append(f"a successful check left the local object {o[:6]} with mode {oct(stat.S_IMODE(os.stat(p).st_mode))}")
                if probs:
                    break
        finally:
            if state is not None:
                state.close()
    return [{"store": cls.__name__, "state": with_state, "history": log[-8:], "problems": probs[:2]}] if probs else []


def main():
    n = int(sys.argv[1]) if len(sys.argv) > 1 else 200
    rng = random.Random(int(os.environ.get("VERIF_SEED", "1")))
    failures = []
    for i in range(n):
        try:
            failures += run_history(rng, i)
        except Exception as e:  # noqa: BLE001
            failures.append({"problems": [f"raised {type(e).__name__}: {str(e)[:120]}"]})
    print(json.dumps({"evaluations": n, "distinct_nontrivial": n, "n_failures": len(failures), "failures": failures[:4],
                      "bound": f"{n} seeded histories: 3-6 objects (one directory listing), <= 6 operations from query / check / tamper (5 patterns x 6 modes) / "
                               "query through a fresh handle, two handles on one store, state on/off, 2 store classes"}))


if __name__ == "__main__":
    main()
