"""Bounded stand-in for C20's persistence clauses (json / diskcache / sqltrie are outside the verifier's reach):
write an index to each persistent form and read it back.

Forms: JSON file (write_json/read_json), key-value database (write_db/read_db), SQLite-backed index
(DataIndex.open -> set entries -> commit -> [lazy load of directory objects -> commit] -> close -> reopen).
Oracle: same keys and, for every entry, the same serialised metadata fields (flags and counts exactly, texts modulo
falsiness), the same hash and the same loaded flag as the in-memory index showed before it was written.
Entries: any combination of optional fields, non-ASCII key parts, '.dir' hashes, zero sizes, false-y values; the
SQLite form also covers the empty root key.

usage: index_persist.py [N]  (seed from VERIF_SEED) -> JSON report, last line of stdout
"""
import logging; logging.disable(logging.CRITICAL)  # noqa: E702
import _memfs  # noqa: E402
import hashlib, json, os, random, sys, tempfile  # noqa: E401

SRC = os.environ.get("PYVC_REPO_SRC", "/repo/src")
sys.path.insert(0, SRC)
from dvc_objects.fs.local import LocalFileSystem  # noqa: E402

from dvc_data.hashfile.db import HashFileDB  # noqa: E402
from dvc_data.hashfile.hash_info import HashInfo  # noqa: E402
from dvc_data.hashfile.meta import Meta  # noqa: E402
from dvc_data.index import DataIndex, DataIndexEntry, ObjectStorage  # noqa: E402
from dvc_data.index.serialize import read_db, read_json, write_db, write_json  # noqa: E402

EXACT = ("isdir", "size", "nfiles", "isexec")
TEXT = ("version_id", "etag", "checksum", "md5", "remote")
PARTS = ["a", "b", "bäz", "d ir", "é", "x.dir", ".", "..", ".hidden", "a\\b", " "]  # legal key parts: anything without a slash


def md5(b):
    return hashlib.md5(b).hexdigest()  # noqa: S324


def proj(entry):
    m = entry.meta
    meta = None
    if m is not None:
        meta = tuple(getattr(m, f) for f in EXACT) + tuple(getattr(m, f) or None for f in TEXT)
        if meta == (False, None, None, False) + (None,) * len(TEXT):
            meta = None  # an all-default Meta and an absent one are one value on disk
    hi = entry.hash_info
    h = (hi.name, hi.value) if hi and hi.name and hi.value else None
    return (meta, h, entry.loaded)


def snapshot(index):
    return {key: proj(e) for key, e in index.iteritems()}


def rand_meta(rng):
    if rng.random() < 0.2:
        return None
    return Meta(isdir=rng.random() < 0.2, size=rng.choice([None, 0, 7]), nfiles=rng.choice([None, 0, 3]), isexec=rng.random() < 0.3,
                version_id=rng.choice([None, "", "v1"]), etag=rng.choice([None, "", "e"]), checksum=rng.choice([None, "c"]),
                md5=rng.choice([None, "", md5(b"m")]), remote=rng.choice([None, "", "r"]), inode=rng.choice([None, 5]), mtime=rng.choice([None, 1.5]))


def rand_entries(rng, allow_root):
    out = {}
    for _ in range(rng.randint(1, 6)):
        key = tuple(rng.choice(PARTS) for _ in range(rng.randint(1, 3)))
        if any(k[: len(key)] == key or key[: len(k)] == k for k in out):
            continue
        hi = rng.choice([None, HashInfo("md5", md5(os.urandom(3))), HashInfo("md5", md5(b"d") + ".dir"), HashInfo("md5-dos2unix", md5(b"q"))])
        meta = rand_meta(rng)
        isdir = bool(meta and meta.isdir) or bool(hi and hi.value.endswith(".dir"))
        # a directory entry that is not marked loaded would be expanded on iteration (C17's subject): explicit ones are loaded
        out[key] = DataIndexEntry(key=key, meta=meta, hash_info=hi, loaded=True if isdir else rng.choice([None, True, False]))
    # explicit directory entries ABOVE some of the keys (an entry at ("data",) next to entries at ("data", "bar"), ...)
    for key in list(out):
        for j in range(1, len(key)):
            if rng.random() < 0.4 and key[:j] not in out:
                out[key[:j]] = DataIndexEntry(key=key[:j], meta=Meta(isdir=True), hash_info=rng.choice([None, HashInfo("md5", md5(b"dd") + ".dir")]), loaded=True)
    if allow_root and rng.random() < 0.3:
        out[()] = DataIndexEntry(key=(), meta=Meta(isdir=True), hash_info=None, loaded=True)
    return out


def compare(what, before, after):
    if set(before) != set(after):
        return [f"{what}: keys differ: lost {sorted(set(before) - set(after))[:2]} extra {sorted(set(after) - set(before))[:2]}"]
    bad = [k for k in before if before[k] != after[k]]
    return [f"{what}: entry {'/'.join(bad[0]) or '<root>'} was {before[bad[0]]}, read back {after[bad[0]]}"] if bad else []


def run_one(rng, tmp, i):
    probs = []
    entries = rand_entries(rng, allow_root=False)
    idx = DataIndex()
    for k, e in entries.items():
        idx[k] = e
    before = snapshot(idx)
    pj, pd = os.path.join(tmp, f"i{i}.json"), os.path.join(tmp, f"i{i}.db")
    write_json(idx, pj)
    probs += compare("json", before, snapshot(read_json(pj)))
    write_db(idx, pd)
    probs += compare("db", before, snapshot(read_db(pd)))
    # SQLite-backed index, with a lazily loaded directory object
    odb = HashFileDB(LocalFileSystem(), os.path.join(tmp, f"odb{i}"))
    f1, f2 = os.urandom(4), os.urandom(5)
    odb.add_bytes(md5(f1), f1)
    odb.add_bytes(md5(f2), f2)
    listing = json.dumps([{"md5": md5(f1), "relpath": "bar"}, {"md5": md5(f2), "relpath": "sub/bäz"}], sort_keys=True).encode()
    doid = md5(listing) + ".dir"
    odb.add_bytes(doid, listing)
    ps = os.path.join(tmp, f"i{i}.sqlite")
    sidx = DataIndex.open(ps)
    sidx.storage_map.add_cache(ObjectStorage((), odb))
    for k, e in rand_entries(rng, allow_root=True).items():
        if k and k[0] == "data":
            continue
        sidx[k] = e
    if () not in sidx:
        sidx[("data",)] = DataIndexEntry(key=("data",), meta=Meta(isdir=True), hash_info=HashInfo("md5", doid))
    sidx.commit()
    if rng.random() < 0.7:
        try:
            if rng.random() < 0.5:
                sidx.load()
            else:
                list(sidx.iteritems(("data",)))
        except Exception:  # noqa: BLE001, S110
            pass  # entries with '.dir' hashes that are not in the store cannot be expanded: not this property's subject
        sidx.commit()
    # in-session histories on the SQLite-backed form: fetch an entry back, change it in place, store it again; delete an entry
    # below a loaded directory; roll a store back and repeat it
    keys = [k for k, _ in sidx.iteritems()]
    if keys and rng.random() < 0.6:
        k = rng.choice(keys)
        e = sidx[k]
        if not (e.meta and e.meta.isdir):
            e.meta = Meta(size=rng.choice([0, 11]), isexec=not (e.meta.isexec if e.meta else False))
            e.loaded = rng.choice([None, True])
            sidx[k] = e
            sidx.commit()
    if rng.random() < 0.3:
        k2 = ("rolled", "bäck")
        ent = DataIndexEntry(key=k2, meta=Meta(size=0), hash_info=HashInfo("md5", md5(b"r")))
        sidx[("rolled",)] = DataIndexEntry(key=("rolled",), meta=Meta(isdir=True), loaded=True)
        sidx.commit()
        sidx[k2] = ent
        sidx.rollback()
        sidx[k2] = ent
        sidx.commit()
    if ("data", "bar") in sidx and rng.random() < 0.5:
        del sidx[("data", "bar")]
        sidx.commit()
    before = snapshot(sidx)
    sidx.close()
    again = DataIndex.open(ps)
    probs += compare("sqlite", before, snapshot(again))
    again.close()
    return [{"problems": probs[:3]}] if probs else []


def main():
    n = int(sys.argv[1]) if len(sys.argv) > 1 else 100
    rng = random.Random(int(os.environ.get("VERIF_SEED", "1")))
    failures = []
    with tempfile.TemporaryDirectory(dir="/var/tmp") as tmp:
        for i in range(n):
            _memfs.reset()
            try:
                failures += run_one(rng, tmp, i)
            except Exception as e:  # noqa: BLE001
                failures.append({"problems": [f"raised {type(e).__name__}: {str(e)[:120]}"]})
    print(json.dumps({"evaluations": n, "distinct_nontrivial": n, "n_failures": len(failures), "failures": failures[:4],
                      "bound": f"{n} seeded indexes: <= 6 entries, depth <= 3, explicit directory entries above other keys, non-ASCII / dot / backslash / blank parts, optional meta/hash/loaded, false-y values; "
                               "json, key-value db, sqlite with commit/close/reopen, a lazily loaded directory object, in-place updates, rollback + repeat, deletions below a loaded directory"}))


if __name__ == "__main__":
    main()
