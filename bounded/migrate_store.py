"""Bounded stand-in for C01's migration clause (hashfile/db/migrate.py: prepare + migrate), outside the verifier's reach
(thread pool, partial application, unordered results).

A source store under one algorithm is filled with generated contents (CRLF text, LF text, binary with CRLF, empty,
non-ASCII, a directory listing) and migrated into a store under another algorithm.  Oracle: every object of the
destination is filed under the digest OF ITS OWN BYTES under the destination's algorithm (directory objects keep the
'.dir' suffix), nothing of the source is lost or altered, and the destination has exactly one object per distinct
digest of the source contents.

usage: migrate_store.py [N]  (seed from VERIF_SEED) -> JSON report, last line of stdout
"""
import logging; logging.disable(logging.CRITICAL)  # noqa: E702
import _memfs  # noqa: E402
import hashlib, json, os, random, sys, tempfile  # noqa: E401

SRC = os.environ.get("PYVC_REPO_SRC", "/repo/src")
sys.path.insert(0, SRC)
from dvc_objects.fs.local import LocalFileSystem  # noqa: E402

from dvc_data.hashfile.db import HashFileDB  # noqa: E402
from dvc_data.hashfile.db.local import LocalHashFileDB  # noqa: E402
from dvc_data.hashfile.db.migrate import migrate, prepare  # noqa: E402
from dvc_data.hashfile.istextfile import istextblock  # noqa: E402

FS = LocalFileSystem()


def digest(alg, data):
    if alg == "md5-dos2unix":
        # the legacy algorithm decides text/binary per 1 MiB chunk read (hash.py; the classification itself is C14's subject)
        md = hashlib.md5()  # noqa: S324
        for off in range(0, len(data), 2**20):
            chunk = data[off : off + 2**20]
            md.update(chunk.replace(b"\r\n", b"\n") if istextblock(chunk[:512]) else chunk)
        return md.hexdigest()
    return hashlib.new(alg, data).hexdigest()


def contents(rng):
    pool = [b"line\r\nline two\r\n", b"line\nline two\n", b"\x00\x01\r\n\xff" * 3, b"", "héllo\r\n".encode(), os.urandom(rng.randint(1, 40)),
            b"crlf " + str(rng.randrange(9)).encode() + b"\r\n"]
    out = rng.sample(pool, rng.randint(2, len(pool)))
    if rng.random() < 0.2:
        # larger than one read chunk, binary head, a later chunk that is CRLF text (and the reverse)
        tail = b"text line\r\n" * 40
        out.append(rng.choice([b"\x00\x01\x02" * 5 + b"\xff" * (2**20 - 15) + tail, b"head line\r\n" * 3 + b"-" * (2**20 - 33) + b"\x00\x01" + tail]))
    return out


def objects(store):
    out = {}
    for d, _, fns in os.walk(store):
        for fn in fns:
            p = os.path.join(d, fn)
            rel = os.path.relpath(p, store)
            if len(rel.split(os.sep)) == 2 and len(rel.split(os.sep)[0]) == 2:
                out[rel.replace(os.sep, "")] = open(p, "rb").read()
    return out


def run_one(rng):
    src_alg, dst_alg = rng.choice([("md5-dos2unix", "md5"), ("md5", "sha256"), ("md5-dos2unix", "sha256"), ("md5", "md5-dos2unix")])
    scls, dcls = rng.choice([HashFileDB, LocalHashFileDB]), rng.choice([HashFileDB, LocalHashFileDB])
    with tempfile.TemporaryDirectory(dir="/var/tmp") as tmp:
        src = scls(FS, os.path.join(tmp, "src"), hash_name=src_alg)
        dst = dcls(FS, os.path.join(tmp, "dst"), hash_name=dst_alg)
        datas = contents(rng)
        for data in datas:
            src.add_bytes(digest(src_alg, data), data)
        listing = json.dumps([{"md5": digest(src_alg, d), "relpath": f"f{i}"} for i, d in enumerate(datas)], sort_keys=True).encode()
        src.add_bytes(digest(src_alg, listing) + ".dir", listing)
        before = objects(src.path)
        try:
            migrate(prepare(src, dst))
        except Exception as e:  # noqa: BLE001
            return [{"from": src_alg, "to": dst_alg, "problems": [f"raised {type(e).__name__}: {e}"]}]
        after_src, got = objects(src.path), objects(dst.path)
        probs = []
        if after_src != before:
            probs.append("the source store changed")
        for oid, data in got.items():
            want = digest(dst_alg, data) + (".dir" if oid.endswith(".dir") else "")
            if oid != want:
                probs.append(f"object {oid} holds bytes whose {dst_alg} digest is {want}")
        expect = {digest(dst_alg, d) + (".dir" if o.endswith(".dir") else "") for o, d in before.items()}
        if set(got) != expect:
            probs.append(f"destination has {len(got)} objects, expected {len(expect)}: missing {sorted(expect - set(got))[:2]} extra {sorted(set(got) - expect)[:2]}")
        return [{"from": src_alg, "to": dst_alg, "stores": [scls.__name__, dcls.__name__], "problems": probs[:3]}] if probs else []


def main():
    n = int(sys.argv[1]) if len(sys.argv) > 1 else 60
    rng = random.Random(int(os.environ.get("VERIF_SEED", "1")))
    failures = []
    for _ in range(n):
        _memfs.reset()
        try:
            failures += run_one(rng)
        except Exception as e:  # noqa: BLE001
            failures.append({"problems": [f"raised {type(e).__name__}: {str(e)[:120]}"]})
    print(json.dumps({"evaluations": n, "distinct_nontrivial": n, "n_failures": len(failures), "failures": failures[:4],
                      "bound": f"{n} seeded stores: 2-7 objects (CRLF/LF text, binary with CRLF, empty, non-ASCII, random; one run in five: a > 1 MiB object whose chunks differ in text/binary kind) + one directory listing, "
                               "4 algorithm pairs, 2x2 store classes"}))


if __name__ == "__main__":
    main()
