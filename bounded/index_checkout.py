"""Bounded stand-in (NOT a proof): index checkout converges to the target (C09).
Bound: path names over {a,b,c}, depth <= 3, <= 5 files in the prior workspace and in the target; targets given as explicit
file entries with explicit directory entries; all file<->directory replacements included; delete on/off; link types copy / hardlink / symlink; dangling symbolic links in the prior workspace; n pairs (seeded)."""
import logging; logging.disable(logging.CRITICAL)
import _memfs  # noqa: E402
import hashlib, json, os, random, sys, tempfile
SRC = os.environ.get("PYVC_REPO_SRC", "/repo/src")
sys.path.insert(0, SRC)


def gen_tree(rnd, nmax):
    files = {}
    for _ in range(rnd.randint(0, nmax)):
        k = tuple(rnd.choice("abc") for _ in range(rnd.randint(1, 3)))
        if any(k[: len(o)] == o or o[: len(k)] == k for o in files):
            continue
        files[k] = rnd.choice([b"x", b"y", b"zz"])
    return files


def main(n, seed):
    from dvc_objects.fs.local import LocalFileSystem
    from dvc_data.hashfile.db import HashFileDB
    from dvc_data.hashfile.hash_info import HashInfo
    from dvc_data.hashfile.meta import Meta
    from dvc_data.index import DataIndex, DataIndexEntry, ObjectStorage, build, md5
    from dvc_data.index.checkout import apply, compare

    fs = LocalFileSystem()
    rnd = random.Random(seed)
    fails, distinct = [], set()

    def walk(root):
        out = {}
        for r, ds, fns in os.walk(root):
            for d in ds:
                out[tuple(os.path.relpath(os.path.join(r, d), root).split(os.sep))] = "<dir>"
            for f in fns:
                q = os.path.join(r, f)
                out[tuple(os.path.relpath(q, root).split(os.sep))] = open(q, "rb").read() if os.path.exists(q) else "<dangling link>"
        return out

    def unavailable_dir(case):
        """a target directory object whose listing is NOT in storage: it has to be reported through the error callback -- whether
        the path is new or already a directory in the workspace -- and nothing of the workspace may be lost (delete off)"""
        with tempfile.TemporaryDirectory(dir="/var/tmp") as tmp:
            odb = HashFileDB(fs, os.path.join(tmp, "odb"))
            ws = os.path.join(tmp, "ws"); os.makedirs(ws)
            existing = case % 2 == 0
            if existing:
                os.makedirs(os.path.join(ws, "data")); open(os.path.join(ws, "data", "stale.txt"), "wb").write(b"stale")
            open(os.path.join(ws, "keep"), "wb").write(b"k")
            idx = DataIndex()
            idx[("data",)] = DataIndexEntry(key=("data",), meta=Meta(isdir=True), hash_info=HashInfo("md5", "f" * 32 + ".dir"))  # not in odb
            h = hashlib.md5(b"k").hexdigest(); odb.add_bytes(h, b"k")
            idx[("keep",)] = DataIndexEntry(key=("keep",), meta=Meta(), hash_info=HashInfo("md5", h))
            idx.storage_map.add_cache(ObjectStorage((), odb))
            errors = []
            try:
                d = compare(md5(build(ws, fs)), idx, delete=False)
                apply(d, ws, fs, onerror=lambda *a: errors.append(a), links=["copy"])
            except Exception as e:  # noqa: BLE001
                return f"raised {e!r}"
            if not any("data" in str(a) for a in errors):
                return f"unavailable directory object not reported through onerror (directory already in the workspace: {existing})"
            if existing and not os.path.exists(os.path.join(ws, "data", "stale.txt")):
                return "delete off, yet a file below the unavailable directory was removed"
        return None

    for case in range(n):
        _memfs.reset()
        if case % 12 == 11:
            pr = unavailable_dir(case // 12)
            if pr:
                fails.append({"prior": "unavailable directory object", "target": {}, "delete": False, "problem": pr})
            continue
        prior, target = gen_tree(rnd, 5), gen_tree(rnd, 5)
        mode_lazy = rnd.random() < 0.4
        with_md5 = rnd.random() < 0.6
        # explicit empty directories of the target (not below a target file, not a prefix clash)
        empty_dirs = []
        if not mode_lazy and rnd.random() < 0.4:
            e = tuple(rnd.choice("abc") for _ in range(rnd.randint(1, 2)))
            if not any(t[: len(e)] == e or e[: len(t)] == t for t in target):
                empty_dirs.append(e)
        # targets given as explicit FILE entries only (no directory entries at all)
        files_only = (not mode_lazy) and not empty_dirs and rnd.random() < 0.35
        # one file's object lives in a store of its own, registered at exactly that file's key (single-file-output layout)
        own_store_key = rnd.choice(sorted(target)) if (target and not mode_lazy and rnd.random() < 0.3) else None
        link = rnd.choice(["copy", "copy", "hardlink", "symlink"])
        # dangling symbolic links in the prior workspace (a symlink checkout whose cache object is gone), at fresh paths or target paths
        dangling = []
        for _ in range(rnd.choice([0, 0, 1, 2])):
            k = tuple(rnd.choice("abcd") for _ in range(rnd.randint(1, 3)))
            if not any((k[: len(o)] == o or o[: len(k)] == k) for o in list(prior) + dangling):
                dangling.append(k)
        if dangling:
            with_md5 = False  # md5() keeps only entries it could hash: the prior index handed to compare has to be the walk itself
        delete = rnd.random() < 0.75
        if dangling and any((t[: len(k)] == k or k[: len(t)] == t) and t != k for t in list(target) + empty_dirs for k in dangling):
            delete = True
        if not delete and any((t[: len(k)] == k or k[: len(t)] == t) and t != k for t in list(target) + empty_dirs for k in prior):
            delete = True  # a path changing kind cannot converge without deletions: outside the statement's delete-off clause
        distinct.add((tuple(sorted(prior)), tuple(sorted(target)), delete, mode_lazy, with_md5, tuple(empty_dirs), files_only, own_store_key, link, tuple(dangling)))
        with tempfile.TemporaryDirectory(dir="/var/tmp") as tmp:
            odb = HashFileDB(fs, os.path.join(tmp, "odb"))
            odb2 = HashFileDB(fs, os.path.join(tmp, "odb2"))
            ws = os.path.join(tmp, "ws"); os.makedirs(ws)
            for k, data in prior.items():
                p = os.path.join(ws, *k); os.makedirs(os.path.dirname(p), exist_ok=True); open(p, "wb").write(data)
            for k in dangling:
                p = os.path.join(ws, *k); os.makedirs(os.path.dirname(p), exist_ok=True); os.symlink(os.path.join(tmp, "gone", "object"), p)

            lazy = mode_lazy
            def tgt():
                idx = DataIndex()
                done = set()
                if lazy:
                    # top-level directories given as unloaded directory objects
                    for top in sorted({k[0] for k in target if len(k) > 1}):
                        lst = []
                        for k, data in sorted(target.items()):
                            if k[0] == top and len(k) > 1:
                                h = hashlib.md5(data).hexdigest(); odb.add_bytes(h, data)
                                lst.append({"md5": h, "relpath": "/".join(k[1:])}); done.add(k)
                        raw = json.dumps(sorted(lst, key=lambda d: d["relpath"]), sort_keys=True).encode()
                        oid = hashlib.md5(raw).hexdigest() + ".dir"; odb.add_bytes(oid, raw)
                        idx[(top,)] = DataIndexEntry(key=(top,), meta=Meta(isdir=True), hash_info=HashInfo("md5", oid))
                dirs = {k[:j] for k in target if k not in done for j in range(1, len(k))} | {e[:j] for e in empty_dirs for j in range(1, len(e) + 1)}
                for dk in ([] if files_only else dirs):
                    idx[dk] = DataIndexEntry(key=dk, meta=Meta(isdir=True), loaded=True)
                for k, data in target.items():
                    if k in done:
                        continue
                    data_ = data + b" (own store)" if k == own_store_key else data
                    h = hashlib.md5(data_).hexdigest(); (odb2 if k == own_store_key else odb).add_bytes(h, data_)
                    idx[k] = DataIndexEntry(key=k, meta=Meta(isexec=(k in execs)), hash_info=HashInfo("md5", h))
                idx.storage_map.add_cache(ObjectStorage((), odb))
                if own_store_key is not None:
                    idx.storage_map.add_cache(ObjectStorage(own_store_key, odb2))
                return idx
            errors, problem = [], None
            # executable entries (copies only: the mode of a link is the mode of the cache object); some of them replace a prior
            # non-executable file with other bytes, some an identical one (a pure exec-bit flip), some are new
            execs = {k for k in target if link == "copy" and not mode_lazy and rnd.random() < 0.3}
            try:
                old = build(ws, fs)
                d1 = compare(md5(old) if with_md5 else old, tgt(), delete=delete)
                apply(d1, ws, fs, onerror=lambda *a: errors.append(a), links=[link])
                got = walk(ws)
                want = {k: (v + b" (own store)" if k == own_store_key else v) for k, v in target.items()}
                want.update({k[:j]: "<dir>" for k in target for j in range(1, len(k))})
                want.update({e[:j]: "<dir>" for e in empty_dirs for j in range(1, len(e) + 1)})
                if errors:
                    problem = f"onerror called {len(errors)}x although every source is available"
                elif delete and got != want:
                    problem = f"workspace differs from target: extra={sorted(set(got) - set(want))[:3]} missing={sorted(set(want) - set(got))[:3]}"
                elif any(bool(os.stat(os.path.join(ws, *k)).st_mode & 0o100) != (k in execs) for k in target if os.path.isfile(os.path.join(ws, *k)) and link == "copy" and not mode_lazy):
                    bad = [k for k in target if os.path.isfile(os.path.join(ws, *k)) and bool(os.stat(os.path.join(ws, *k)).st_mode & 0o100) != (k in execs)]
                    problem = f"executable bit differs from the target for {bad[:3]} (executable entries: {sorted(execs)[:3]})"
                elif not delete and any(got.get(k) != v for k, v in want.items()):
                    problem = "target not materialised (delete off)"
                elif not delete:
                    lost = [k for k in list(prior) + dangling if k not in got and not any(t[: len(k)] == k or k[: len(t)] == t for t in want)]
                    if lost:
                        problem = f"delete off but {lost[:2]} outside the target were removed"
                if problem is None and delete:
                    d2 = compare(md5(build(ws, fs)), tgt(), delete=True)
                    left = {a: [e.key for e in getattr(d2, a)] for a in ("files_delete", "dirs_delete", "files_create", "dirs_create") if getattr(d2, a)}
                    if left:
                        problem = f"second compare still has work to do: {left}"
            except Exception as e:  # noqa: BLE001
                problem = "raised " + repr(e)
            if problem:
                fails.append({"prior": {"/".join(k): v.decode() for k, v in prior.items()}, "target": {"/".join(k): v.decode() for k, v in target.items()},
                              "delete": delete, "link": link, "dangling_links": ["/".join(k) for k in dangling], "files_only": files_only, "own_store": "/".join(own_store_key) if own_store_key else None, "problem": problem})
    return {"evaluations": n, "distinct_nontrivial": len(distinct), "failures": fails[:int(os.environ.get("VERIF_MAXFAIL", "3"))], "n_failures": len(fails),
            "bound": "names over {a,b,c}, depth <= 3, <= 5 files on each side, explicit entries (with or without directory entries) or lazy directory objects, optional per-file storage; copy / hardlink / symlink link types; executable entries (copies); <= 2 dangling symbolic links in the prior workspace"}


if __name__ == "__main__":
    print(json.dumps(main(int(sys.argv[1]) if len(sys.argv) > 1 else 150, int(os.environ.get("VERIF_SEED", "0") or 0)), default=str))
