"""Bounded stand-in (NOT a proof) for the assumed contract of transfer._add and HashFileDB/ObjectDB.add failure reporting:
whatever subset of uploads fails, and whatever the error type, every failed object is returned as failed, the destination stays
closed after every upload, and the result is truthful (C04 / C11).
Bound: 2-3 directories (<= 3 files, one shared), 1-2 failing objects, error kinds {EIO at put_file, FileNotFoundError because the
source object vanished after the status query, corrupt source object under verify=True}, with/without a destination index; n transfers (seeded)."""
import logging; logging.disable(logging.CRITICAL)
import _memfs  # noqa: E402
import hashlib, json, os, random, sys, tempfile
from contextlib import closing
SRC = os.environ.get("PYVC_REPO_SRC", "/repo/src")
sys.path.insert(0, SRC)


def main(n, seed):
    from dvc_objects.fs.local import LocalFileSystem
    from dvc_data.hashfile.build import build
    from dvc_data.hashfile.db import HashFileDB
    from dvc_data.hashfile.db.index import ObjectDBIndex
    from dvc_data.hashfile.hash_info import HashInfo
    from dvc_data.hashfile.transfer import transfer
    from dvc_data.hashfile.tree import Tree

    state = {"fail": set(), "remote": None, "trees": [], "unclosed": None}

    def unclosed(remote, trees):
        present = set(remote.all())
        for t in trees:
            if t.hash_info.value in present:
                miss = [hi.value for _, _, hi in t if hi.value not in present]
                if miss:
                    return (t.hash_info.value, miss[0])
        return None

    class FFS(LocalFileSystem):
        def put_file(self, from_file, to_info, callback=None, **kw):
            if any(o in str(to_info).replace(os.sep, "") for o in state["fail"]):
                raise OSError(5, "injected upload fault", str(to_info))
            r = super().put_file(from_file, to_info, callback=callback, **kw)
            if state["remote"] is not None and state["unclosed"] is None:
                state["unclosed"] = unclosed(state["remote"], state["trees"])   # closedness after EVERY upload
            return r

    def multi_fs_source(case):
        """a staged directory whose file objects live on more than one filesystem (reference store: some on disk, some in memory):
        _add() batches per source filesystem, every batch has to be uploaded (or reported)"""
        from dvc_objects.fs.memory import MemoryFileSystem
        from dvc_data.hashfile.db.reference import ReferenceHashFileDB
        import hashlib

        localfs, memfs = LocalFileSystem(), MemoryFileSystem(global_store=False)
        with tempfile.TemporaryDirectory(dir="/var/tmp") as tmp:
            dest = HashFileDB(localfs, os.path.join(tmp, "dest")); os.makedirs(dest.path)
            staging = ReferenceHashFileDB(memfs, "memory://staging")
            oids = {}
            for j in range(4):
                on_disk = (j + case) % 2 == 0
                fs_, path = (localfs, os.path.join(tmp, "work", f"f{j}")) if on_disk else (memfs, f"memory://gen{case}/f{j}")
                data = f"{case}-{j}".encode()
                fs_.makedirs(fs_.parent(path), exist_ok=True); fs_.pipe_file(path, data)
                oids[f"f{j}"] = hashlib.md5(data).hexdigest()
                staging.add(path, fs_, oids[f"f{j}"])
            raw = json.dumps([{"md5": oids[k], "relpath": k} for k in sorted(oids)], sort_keys=True).encode()
            doid = hashlib.md5(raw).hexdigest() + ".dir"
            memfs.pipe_file(f"memory://gen{case}/tree.dir", raw); staging.add(f"memory://gen{case}/tree.dir", memfs, doid)
            res = transfer(staging, dest, {HashInfo("md5", doid)}, shallow=False)
            present = set(dest.all())
            missing = [o for o in list(oids.values()) + [doid] if o not in present]
            if doid in present and any(o not in present for o in oids.values()):
                return "destination holds the directory object without a file it lists (source objects on two filesystems)"
            if missing and not all(any(h.value == o for h in res.failed) for o in missing):
                return "an object that did not arrive is not reported as failed (source objects on two filesystems)"
        return None

    rnd = random.Random(seed)
    fails, distinct = [], set()
    for case in range(n):
        _memfs.reset()
        if case % 10 == 9:
            try:
                pr = multi_fs_source(case)
            except Exception as e:  # noqa: BLE001
                pr = "raised " + repr(e)
            distinct.add(("multi-fs", case))
            if pr:
                fails.append({"fault": "none", "victims": [], "dest_index": False, "problem": pr})
            continue
        with tempfile.TemporaryDirectory(dir="/var/tmp") as tmp:
            fs = LocalFileSystem()
            alg = "md5-dos2unix" if case % 4 == 3 else "md5"  # every fourth: a legacy pair of stores (ids carry the legacy name)
            cache = HashFileDB(fs, os.path.join(tmp, "cache"), hash_name=alg)
            # every eighth: the destination is a legacy store while the source is not (ids carry the SOURCE's name)
            remote = HashFileDB(FFS(), os.path.join(tmp, "remote"), hash_name=("md5-dos2unix" if case % 8 == 5 else alg))
            trees = []
            for d in range(rnd.randint(2, 3)):
                p = os.path.join(tmp, "ws", f"d{d}"); os.makedirs(p)
                open(os.path.join(p, "shared"), "wb").write(b"SHARED")
                for f in range(rnd.randint(1, 2)):
                    open(os.path.join(p, f"f{f}"), "wb").write(f"{case}-{d}-{f}".encode())
                staging, _, obj = build(cache, p, fs, alg)
                transfer(staging, cache, {obj.hash_info}, shallow=False)
                trees.append(obj)
            ids = {t.hash_info for t in trees} | {hi for t in trees for _, _, hi in t}
            files = sorted(h.value for h in ids if not h.isdir)
            kind = rnd.choice(["eio", "vanish", "corrupt"])
            victims = set(rnd.sample(files, rnd.randint(1, 2)))
            state.update(fail=victims if kind == "eio" else set(), remote=remote, trees=trees, unclosed=None)

            appeared = kind == "corrupt" and rnd.random() < 0.5

            def hook(status, victims=victims, kind=kind, appeared=appeared):
                if kind == "vanish":
                    for o in victims:
                        pth = cache.oid_to_path(o)
                        if os.path.exists(pth):
                            os.chmod(pth, 0o644); os.unlink(pth)
                if kind == "corrupt":  # bit rot in the source: the transfer runs with verify=True and must not deliver / vouch for it
                    for o in victims:
                        pth = cache.oid_to_path(o)
                        if os.path.exists(pth):
                            if appeared:
                                # ... and meanwhile someone else delivered the intact object (after the status query): the
                                # verifying destination must not end up holding the rotten bytes under that name
                                dst = remote.oid_to_path(o)
                                os.makedirs(os.path.dirname(dst), exist_ok=True)
                                open(dst, "wb").write(open(pth, "rb").read())
                            os.chmod(pth, 0o644); open(pth, "wb").write(b"rotten " + o.encode())
            use_index = rnd.random() < 0.5
            distinct.add((len(trees), kind, tuple(sorted(victims)), use_index, alg))
            problem = None
            try:
                if use_index:
                    with closing(ObjectDBIndex(os.path.join(tmp, "idx"), "r")) as index:
                        res = transfer(cache, remote, ids, validate_status=hook, dest_index=index, verify=(kind == "corrupt"))
                else:
                    res = transfer(cache, remote, ids, validate_status=hook, verify=(kind == "corrupt"))
                present = set(remote.all())
                if state["unclosed"]:
                    problem = f"after an upload the destination held directory {state['unclosed'][0][:8]} without its file {state['unclosed'][1][:8]}"
                elif unclosed(remote, trees):
                    problem = "destination not closed at return"
                elif kind == "corrupt" and (bad := [o for o in present if not o.endswith(".dir") and hashlib.md5(open(remote.oid_to_path(o), "rb").read()).hexdigest() != o]):
                    problem = f"after a transfer with verify the destination retains a mismatching object {bad[0][:8]}" + (" (the intact object had been delivered meanwhile)" if appeared else "")
                elif any(h.value not in present for h in res.transferred):
                    problem = "an object reported as transferred is absent from the destination"
                elif any(h.value not in present and h not in res.failed for h in ids):
                    problem = f"an absent object is not reported as failed (fault kind: {kind})"
                elif not any(v in {h.value for h in res.failed} for v in victims):
                    problem = f"the object whose upload failed ({kind}) is not in the failed set"
            except Exception as e:  # noqa: BLE001
                problem = "raised " + repr(e)
            state["remote"] = None
            if problem:
                fails.append({"fault": kind, "victims": sorted(victims), "dest_index": use_index, "algorithm": alg, "problem": problem})
    return {"evaluations": n, "distinct_nontrivial": len(distinct), "failures": fails[:3], "n_failures": len(fails),
            "bound": "2-3 directories sharing a file, 1-2 failing uploads, fault kinds {EIO, source vanished, source corrupt under verify (half of them: the intact object delivered by someone else after the status query)}, with/without index, every fourth on a legacy (md5-dos2unix) pair of stores, every eighth from an md5 source into a legacy destination; every tenth: a fault-free transfer whose source objects live on two filesystems"}


if __name__ == "__main__":
    print(json.dumps(main(int(sys.argv[1]) if len(sys.argv) > 1 else 40, int(os.environ.get("VERIF_SEED", "0") or 0)), default=str))
