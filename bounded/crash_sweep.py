"""Bounded stand-in for C15: kill the process at every filesystem mutation of an operation, audit, re-run, audit.

Scenario family (the statement's): S1 stage + transfer into a local store with a hash state; S2 index save of nested
directories into two cache stores; S3 store-to-store transfer (directory + loose file); S4 upload staging of one file.
Crash model: the n-th mutating os-level call (replace, rename, chmod, mkdir, link, symlink, unlink, remove, and every
create/truncate through os.open / builtins.open for writing) raises a BaseException BEFORE it takes effect; every later
mutating call raises too (a dead process cleans nothing up).  A partial copy is a crash after half the bytes of a
shutil.copyfileobj.  Every crash point of every scenario is taken once (the sweep is exhaustive within the family).
Audit after the crash:
  A1 no mismatching object is write-protected (0o444) or vouched for by a hash-state row;
  A2 every intact directory object present has all the files it lists present.
Then the operation is re-run in a fresh process image (new store / state objects) and must end with
  A3 the same object names as an uninterrupted run, every object matching its name (and A1, A2).

usage: crash_sweep.py [N]  (N = max crash points per scenario; seed unused) -> JSON report, last line of stdout
"""
import logging; logging.disable(logging.CRITICAL)  # noqa: E702
import builtins, hashlib, json, os, shutil, stat, sys, tempfile  # noqa: E401
from contextlib import contextmanager

SRC = os.environ.get("PYVC_REPO_SRC", "/repo/src")
sys.path.insert(0, SRC)
from dvc_objects.fs.local import LocalFileSystem  # noqa: E402

from dvc_data.hashfile.build import build  # noqa: E402
from dvc_data.hashfile.db import HashFileDB  # noqa: E402
from dvc_data.hashfile.db.local import LocalHashFileDB  # noqa: E402
from dvc_data.hashfile.state import State  # noqa: E402
from dvc_data.hashfile.transfer import transfer  # noqa: E402

OS_MUTATORS = ["replace", "rename", "chmod", "mkdir", "link", "symlink", "unlink", "remove"]


class Crash(BaseException):
    pass


class Crasher:
    def __init__(self, crash_at=None, scope=""):
        self.crash_at, self.count, self.dead, self.where, self.scope = crash_at, 0, False, None, scope

    def hit(self, name, target):
        if self.scope and not str(target).startswith(self.scope):
            return  # bookkeeping outside the stores / state under audit (temp dirs of the harness, sqlite journal, ...)
        if self.dead:
            raise Crash("dead")
        self.count += 1
        if self.count == self.crash_at:
            self.dead, self.where = True, f"{name}({os.path.relpath(str(target), self.scope) if self.scope else target})"
            raise Crash(self.where)


@contextmanager
def crashing(cr):
    saved = {n: getattr(os, n) for n in OS_MUTATORS}
    saved_open, saved_osopen, saved_cfo = builtins.open, os.open, shutil.copyfileobj

    def wrap(name, fn):
        def w(*a, **k):
            cr.hit(name, a[1] if name in ("replace", "rename", "link", "symlink") else a[0])
            return fn(*a, **k)
        return w

    def open_(file, mode="r", *a, **k):
        if isinstance(file, (str, bytes, os.PathLike)) and any(c in mode for c in "wxa+"):
            cr.hit("open-for-write", file)
        return saved_open(file, mode, *a, **k)

    def osopen_(path, flags, *a, **k):
        if flags & (os.O_WRONLY | os.O_RDWR | os.O_CREAT | os.O_TRUNC):
            cr.hit("os.open-for-write", path)
        return saved_osopen(path, flags, *a, **k)

    def cfo_(fsrc, fdst, length=0):
        name = getattr(fdst, "name", "")
        if cr.scope and not str(name).startswith(cr.scope):
            return saved_cfo(fsrc, fdst)
        if cr.dead:
            raise Crash("dead")
        cr.count += 1
        if cr.count == cr.crash_at:
            data = fsrc.read()
            fdst.write(data[: len(data) // 2])
            fdst.flush()
            cr.dead, cr.where = True, f"partial-copy({os.path.relpath(str(name), cr.scope) if cr.scope else name})"
            raise Crash(cr.where)
        return saved_cfo(fsrc, fdst)

    for n, fn in saved.items():
        setattr(os, n, wrap(n, fn))
    builtins.open, os.open, shutil.copyfileobj = open_, osopen_, cfo_
    try:
        yield cr
    finally:
        for n, fn in saved.items():
            setattr(os, n, fn)
        builtins.open, os.open, shutil.copyfileobj = saved_open, saved_osopen, saved_cfo


# ---------------------------------------------------------------- audit
def objects(store):
    out = {}
    if not os.path.isdir(store):
        return out
    for pre in sorted(os.listdir(store)):
        d = os.path.join(store, pre)
        if len(pre) != 2 or not os.path.isdir(d):
            continue
        for name in sorted(os.listdir(d)):
            if "." in name and not name.endswith(".dir"):
                continue  # temporary names may hold partial data
            out[pre + name] = os.path.join(d, name)
    return out


def audit(store, state_dir=None, root=None):
    problems, objs = [], objects(store)
    st = State(root, state_dir) if state_dir and os.path.isdir(state_dir) else None
    try:
        for oid, path in objs.items():
            data = open(path, "rb").read()
            ok = hashlib.md5(data).hexdigest() == oid.split(".")[0]  # noqa: S324
            if not ok:
                if stat.S_IMODE(os.stat(path).st_mode) == 0o444:
                    problems.append(f"{oid}: mismatching object is write-protected")
                if st is not None:
                    _, hi = st.get(path, LocalFileSystem())
                    if hi is not None and hi.value and hi.value.split(".")[0] == oid.split(".")[0]:
                        problems.append(f"{oid}: mismatching object is vouched for by a hash-state row")
                continue
            if oid.endswith(".dir"):
                for e in json.loads(data):
                    if e["md5"] not in objs:
                        problems.append(f"directory object {oid} present, its file {e['relpath']!r} ({e['md5']}) is not")
    finally:
        if st is not None:
            st.close()
    return problems


def listing(store):
    return {oid: hashlib.md5(open(p, "rb").read()).hexdigest() == oid.split(".")[0] for oid, p in objects(store).items()}  # noqa: S324


# ---------------------------------------------------------------- scenarios: each returns (run(base), stores, state_dir)
FILES = {"a/x": b"x-content\n", "a/y": b"y-content\n", "a/sub/z": b"z-content\n", "b/p": b"p-content\n", "b/q": b"x-content\n", "loose": b"L\n"}


def make_ws(base):
    ws = os.path.join(base, "ws")
    for rel, data in FILES.items():
        p = os.path.join(ws, rel)
        os.makedirs(os.path.dirname(p), exist_ok=True)
        with open(p, "wb") as f:
            f.write(data)
    return ws


def s1(base):
    """stage + transfer into a local store with a hash state"""
    fs, ws = LocalFileSystem(), os.path.join(base, "ws")
    st = State(base, os.path.join(base, "audit", "state"))
    try:
        odb = LocalHashFileDB(fs, os.path.join(base, "audit", "cache"), state=st)
        staging, _, obj = build(odb, os.path.join(ws, "a"), fs, "md5")
        transfer(staging, odb, {obj.hash_info}, shallow=False)
    finally:
        st.close()


def s2(base):
    """index save of nested directories into two cache stores"""
    from dvc_data.index import ObjectStorage, md5, save
    from dvc_data.index import build as ibuild

    fs, ws = LocalFileSystem(), os.path.join(base, "ws")
    index = md5(ibuild(ws, fs))
    index.storage_map.add_cache(ObjectStorage(("a",), LocalHashFileDB(fs, os.path.join(base, "audit", "cache"))))
    index.storage_map.add_cache(ObjectStorage(("b",), LocalHashFileDB(fs, os.path.join(base, "audit", "cache2"))))
    index.storage_map.add_cache(ObjectStorage(("loose",), LocalHashFileDB(fs, os.path.join(base, "audit", "cache2"))))
    save(index)


def s3(base):
    """store-to-store transfer of a directory and a loose file (source prepared outside the crash window)"""
    fs = LocalFileSystem()
    src = HashFileDB(fs, os.path.join(base, "src"))
    dest = LocalHashFileDB(fs, os.path.join(base, "audit", "cache"))
    ids = set()
    for name in ("a", "loose"):
        o = HashFileDB(fs, os.path.join(base, "src"))
        staging, _, obj = build(o, os.path.join(base, "ws", name), fs, "md5", dry_run=False)
        ids.add(obj.hash_info)
    transfer(src, dest, ids, shallow=False)


def s3_prepare(base):
    fs = LocalFileSystem()
    src = HashFileDB(fs, os.path.join(base, "src"))
    for name in ("a", "loose"):
        staging, _, obj = build(src, os.path.join(base, "ws", name), fs, "md5")
        transfer(staging, src, {obj.hash_info}, shallow=False)


def s4(base):
    """upload staging of one file: temp name inside the store, then added under its digest"""
    fs = LocalFileSystem()
    odb = LocalHashFileDB(fs, os.path.join(base, "audit", "cache"))
    staging, _, obj = build(odb, os.path.join(base, "ws", "loose"), fs, "md5", upload=True)
    transfer(staging, odb, {obj.hash_info}, shallow=False)


def s5(base):
    """the same index saved into a cache and then, in the same run, into a second store (save(index, odb=...) twice)"""
    from dvc_data.index import md5, save
    from dvc_data.index import build as ibuild

    fs, ws = LocalFileSystem(), os.path.join(base, "ws")
    index = md5(ibuild(ws, fs))
    save(index, odb=LocalHashFileDB(fs, os.path.join(base, "audit", "cache")))
    save(index, odb=LocalHashFileDB(fs, os.path.join(base, "audit", "cache2")))


SCENARIOS = {"stage+transfer(state)": (s1, None, True), "index-save(2 caches)": (s2, None, False),
             "store-to-store": (s3, s3_prepare, False), "upload-staging": (s4, None, False), "index-save-twice(odb=)": (s5, None, False)}


import re  # noqa: E402


def signature(name, where, probs):
    """stable identity of a failing crash point: scenario | kind of call (object path or not) | normalised problems"""
    kind, _, target = (where or "none").partition("(")
    cls = "object" if re.search(r"(^|/)[0-9a-f]{2}/[0-9a-f]{30}(\.dir)?\)?$", target) else "other"
    norm = sorted({re.sub(r"cache2", "cache", re.sub(r"[0-9a-f]{30,}(\.dir)?", "<oid>", p)) for p in probs})
    norm = [re.sub(r"\[.*\]", "[..]", p) for p in norm]
    return f"{name}|{kind}({cls})|" + " ; ".join(norm)


def stores_of(base):
    return [os.path.join(base, "audit", n) for n in ("cache", "cache2")]


def full_audit(base, with_state):
    out = []
    for s in stores_of(base):
        out += [f"{os.path.basename(s)}: {p}" for p in audit(s, os.path.join(base, "audit", "state") if with_state else None, base)]
    return out


def fresh(prepare):
    base = tempfile.mkdtemp(prefix="crash-", dir="/var/tmp")
    make_ws(base)
    os.makedirs(os.path.join(base, "audit"))
    if prepare:
        prepare(base)
    return base


def cleanup(base):
    for d, _, fns in os.walk(base):
        for fn in fns:
            try:
                os.chmod(os.path.join(d, fn), 0o644)
            except OSError:
                pass
    shutil.rmtree(base, ignore_errors=True)


def main():
    limit = int(sys.argv[1]) if len(sys.argv) > 1 else 10_000
    failures, evals, points = [], 0, {}
    for name, (run, prepare, with_state) in SCENARIOS.items():
        base = fresh(prepare)
        try:
            with crashing(Crasher(None, os.path.join(base, "audit"))) as counter:
                run(base)
            total = counter.count
            reference = [listing(s) for s in stores_of(base)]
            ref_problems = full_audit(base, with_state)
            if ref_problems or not all(all(l.values()) for l in reference) or not any(reference):
                failures.append({"scenario": name, "crash": "none (uninterrupted run)", "problems": ref_problems or ["reference run left no / mismatching objects"]})
        finally:
            cleanup(base)
        points[name] = total
        for n in range(1, min(total, limit) + 1):
            base = fresh(prepare)
            try:
                cr = Crasher(n, os.path.join(base, "audit"))
                with crashing(cr):
                    try:
                        run(base)
                    except Crash:
                        pass
                evals += 1
                probs = [f"after the crash: {p}" for p in full_audit(base, with_state)]
                try:
                    run(base)  # re-run of the interrupted operation
                    after = [listing(s) for s in stores_of(base)]
                    if after != reference:
                        bad = [k for a in after for k, ok in a.items() if not ok]
                        probs.append(f"re-run did not converge: mismatching {bad}, "
                                     f"missing {[sorted(set(r) - set(a)) for r, a in zip(reference, after)]}")
                    probs += [f"after the re-run: {p}" for p in full_audit(base, with_state)]
                except Exception as e:  # noqa: BLE001
                    probs.append(f"re-run raised {type(e).__name__}: {e}")
                if probs:
                    failures.append({"scenario": name, "crash": f"#{n} at {cr.where}", "problems": probs[:4], "signature": signature(name, cr.where, probs)})
            finally:
                cleanup(base)
    print(json.dumps({"evaluations": evals, "distinct_nontrivial": evals, "n_failures": len(failures), "failures": failures,
                      "crash_points": points,
                      "bound": "5 scenarios (stage+transfer with state, index save into 2 caches, store-to-store, upload staging, one index saved into two stores in a row) over a fixed "
                               "6-file workspace; every os-level mutation of each run is a crash point, taken once (exhaustive within the family)"}))


if __name__ == "__main__":
    main()
