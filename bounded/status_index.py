"""Bounded stand-in (NOT a proof): status / remote-index coherence over generated histories (C12, index clauses).
Bound: 3 directories (<= 3 files each, one file shared), histories of <= 5 operations drawn from
{push subset (closed request), push with an upload fault, external deletion of one remote object / of one directory object / of everything, status query}; n histories (seeded)."""
import logging; logging.disable(logging.CRITICAL)
import _memfs  # noqa: E402
import json, os, random, sys, tempfile
from contextlib import closing
SRC = os.environ.get("PYVC_REPO_SRC", "/repo/src")
sys.path.insert(0, SRC)


def main(n, seed):
    from dvc_objects.fs.local import LocalFileSystem
    from dvc_data.hashfile.build import build
    from dvc_data.hashfile.db import HashFileDB
    from dvc_data.hashfile.db.index import ObjectDBIndex
    from dvc_data.hashfile.status import compare_status, status
    from dvc_data.hashfile.transfer import transfer

    class FailingFS(LocalFileSystem):
        fail = set()

        def put_file(self, from_file, to_info, callback=None, **kw):
            if any(o in str(to_info).replace(os.sep, "") for o in self.fail):
                raise OSError(5, "injected upload fault", str(to_info))
            return super().put_file(from_file, to_info, callback=callback, **kw)

    rnd = random.Random(seed)
    fails, distinct = [], set()
    for case in range(n):
        _memfs.reset()
        with tempfile.TemporaryDirectory(dir="/var/tmp") as tmp:
            fs = LocalFileSystem()
            cache = HashFileDB(fs, os.path.join(tmp, "cache"))
            ffs = FailingFS()
            remote = HashFileDB(ffs, os.path.join(tmp, "remote"))
            trees = []
            for d in range(3):
                p = os.path.join(tmp, "ws", f"d{d}"); os.makedirs(p)
                open(os.path.join(p, "shared"), "wb").write(b"SHARED")
                for f in range(rnd.randint(1, 2)):
                    open(os.path.join(p, f"f{f}"), "wb").write(f"{case}-{d}-{f}".encode())
                staging, _, obj = build(cache, p, fs, "md5")
                transfer(staging, cache, {obj.hash_info}, shallow=False)
                trees.append(obj)
            ever = set()   # oids ever observed in / delivered to the remote
            hist = []
            with closing(ObjectDBIndex(os.path.join(tmp, "idx"), "remote")) as index:
                for step in range(rnd.randint(2, 5)):
                    op = rnd.choice(["push", "push", "push_fault", "delete", "delete_dir", "delete_dir", "reset", "lose_src_file", "status", "status", "status"])
                    sel = [t for t in trees if rnd.random() < 0.6] or [trees[0]]
                    ids = {t.hash_info for t in sel} | {hi for t in sel for _, _, hi in t}
                    if op == "status" and rnd.random() < 0.5:
                        ids = {hi for t in sel for _, _, hi in t}   # a file-only query through the shared index
                    hist.append((op, sorted(t.hash_info.value[:6] for t in sel)))
                    try:
                        if op in ("push", "push_fault"):
                            FailingFS.fail = {rnd.choice(sorted(h.value for h in ids if not h.isdir))} if op == "push_fault" else set()
                            transfer(cache, remote, ids, dest_index=index)
                            FailingFS.fail = set()
                        elif op in ("delete", "delete_dir"):
                            objs = sorted(o for o in remote.all() if op == "delete" or o.endswith(".dir"))
                            if objs:
                                os.unlink(remote.oid_to_path(rnd.choice(objs)))
                        elif op == "reset":  # the remote is emptied behind our back; the local index survives
                            for o in list(remote.all()):
                                os.unlink(remote.oid_to_path(o))
                        elif op == "lose_src_file":
                            # a file object disappears from the source cache and is not in the remote either: missing on both sides
                            cand = sorted(o for o in cache.all() if not o.endswith(".dir") and not remote.exists(o))
                            if cand:
                                os.unlink(cache.oid_to_path(rnd.choice(cand)))
                        else:
                            before = set(remote.all())
                            st = status(remote, ids, index=index, cache_odb=cache)
                            bad = {h.value for h in st.exists if h.isdir} - before
                            if bad:
                                fails.append({"history": hist, "problem": f"directory objects reported as existing but absent at query time: {sorted(bad)}"})
                                break
                            # a query that names a directory validates the index first (file-only queries do not: by design)
                            stale = set(index.dir_hashes()) - before if any(h.isdir for h in ids) else set()
                            if stale:
                                fails.append({"history": hist, "problem": f"after a status query the index still holds directory ids that are not in the store (a stale index is to be cleared): {sorted(stale)[:2]}"})
                                break
                            if st.exists | st.missing != ids or st.exists & st.missing:
                                fails.append({"history": hist, "problem": "exists/missing do not partition the queried ids"})
                                break
                            st2 = status(remote, ids, cache_odb=cache)
                            if {h.value for h in st2.exists} != {h.value for h in ids} & before:
                                fails.append({"history": hist, "problem": "index-free status disagrees with the store"})
                                break
                            cs = compare_status(cache, remote, ids)
                            if (cs.ok | cs.new | cs.deleted | cs.missing) != ids:
                                fails.append({"history": hist, "problem": "compare_status is not a partition"})
                                break
                    except Exception as e:  # noqa: BLE001
                        fails.append({"history": hist, "problem": "raised " + repr(e)})
                        break
                    now = set(remote.all())
                    ever |= now
                    listed = set()
                    for t in trees:
                        if t.hash_info.value in now:
                            listed |= {hi.value for _, _, hi in t}
                    invented = set(index.hashes()) - ever - listed
                    if invented:
                        fails.append({"history": hist, "problem": f"index holds ids never delivered nor listed by a present directory: {sorted(invented)[:3]}"})
                        break
            distinct.add(tuple(map(str, hist)))
    return {"evaluations": n, "distinct_nontrivial": len(distinct), "failures": fails[:2], "n_failures": len(fails),
            "bound": "3 directories (one shared file), histories of <= 5 operations from push / faulty push / external deletion (object, directory object, everything) / loss of a source object / status of a subset"}


if __name__ == "__main__":
    print(json.dumps(main(int(sys.argv[1]) if len(sys.argv) > 1 else 40, int(os.environ.get("VERIF_SEED", "0") or 0)), default=str))
