"""Bounded stand-in (NOT a proof; exhaustive within its bound): three-way merge of directory listings (C19).
Bound: every triple (ancestor, ours, theirs) of listings over the key universe {('a',), ('b',), ('d','c')} and values {absent, v1, v2, v1' (same hash as v1, other metadata)}
(262144 triples; the thorough tier samples 40000 of them, the 3-value sub-universe of 19683 triples was run exhaustively once, see DESIGN), under the policies None (default), ['add'], ['add','remove'], ['add','remove','change'].  n limits the number of triples (0 = all)."""
import logging; logging.disable(logging.CRITICAL)
import _memfs  # noqa: E402
import itertools, json, os, random, sys
SRC = os.environ.get("PYVC_REPO_SRC", "/repo/src")
sys.path.insert(0, SRC)


def three_way(anc, ours, theirs, keys):
    """per key: the side that changed it, or the common value; None = conflict"""
    out = {}
    for k in keys:
        a, o, t = anc.get(k), ours.get(k), theirs.get(k)
        if o == t:
            v = o
        elif o == a:
            v = t
        elif t == a:
            v = o
        else:
            return None
        if v is not None:
            out[k] = v
    return out


def kinds(anc, side, keys):
    ks = set()
    for k in keys:
        a, s = anc.get(k), side.get(k)
        if a is None and s is not None:
            ks.add("add")
        elif a is not None and s is None:
            ks.add("remove")
        elif a != s:
            ks.add("change")
    return ks


def main(n, seed):
    from dvc_data.hashfile.hash_info import HashInfo
    from dvc_data.hashfile.meta import Meta
    from dvc_data.hashfile.tree import MergeError, _merge

    keys = [("a",), ("b",), ("d", "c")]
    vals = [None, (Meta(size=1), HashInfo("md5", "1" * 32)), (Meta(size=2), HashInfo("md5", "2" * 32)),
            (Meta(size=1, isexec=True), HashInfo("md5", "1" * 32))]   # same object as v1, different recorded attributes
    dicts = [dict((k, v) for k, v in zip(keys, combo) if v is not None) for combo in itertools.product(vals, repeat=3)]
    triples = list(itertools.product(dicts, repeat=3))
    rnd = random.Random(seed)
    if n and n < len(triples):
        triples = rnd.sample(triples, n)
    fails, evals = [], 0
    # ---- the public wrapper merge(): loads the three listings from a store, merges, re-digests (every 40th triple) ----
    import tempfile

    from dvc_objects.fs.local import LocalFileSystem

    from dvc_data.hashfile.db import HashFileDB
    from dvc_data.hashfile.tree import Tree, merge

    def store(odb, d):
        t = Tree()
        for k, (m, h) in d.items():
            t.add(k, m, h)
        t.digest()
        odb.add(t.path, t.fs, t.oid)
        return t

    with tempfile.TemporaryDirectory(dir="/var/tmp") as tmp:
        odb = HashFileDB(LocalFileSystem(), os.path.join(tmp, "odb"))
        for i, (anc, ours, theirs) in enumerate(triples):
            _memfs.reset()
            if i % 40 or not ours or not theirs:
                continue
            for allowed in (None, ["add", "remove", "change"]):
                evals += 1
                # a stored listing carries hashes only: the reference is the three-way merge of the hash projections
                hp = lambda d: {k: v[1].value for k, v in d.items()}  # noqa: E731
                exp_h = three_way(hp(anc), hp(ours), hp(theirs), keys)
                exp = None if exp_h is None else {k: (None, HashInfo("md5", v)) for k, v in exp_h.items()}
                ta, to, tt = (store(odb, anc) if anc else None), store(odb, ours), store(odb, theirs)
                if ta is not None and set(anc) <= set(ours):
                    # "ours" as a caller derives it in one process: load the ancestor, add / replace entries on that object, digest, store
                    la = Tree.load(odb, ta.hash_info)
                    for k, (m, h) in ours.items():
                        if k not in anc or anc[k][1] != h:
                            la.add(k, None, h)
                    la.digest()
                    odb.add(la.path, la.fs, la.oid)
                    to = la
                problem = None
                try:
                    got = merge(odb, ta.hash_info if ta else None, to.hash_info, tt.hash_info, allowed=allowed)
                    listing = {k: h.value for k, m, h in got}
                    if exp_h is None or listing != exp_h:
                        problem = "merge(): result is not the three-way merge"
                    elif got.hash_info != store(odb, exp).hash_info:
                        problem = "merge(): the merged listing does not carry its canonical identifier"
                except MergeError:
                    pass
                except Exception as e:  # noqa: BLE001
                    problem = f"merge(): {type(e).__name__} escapes instead of a merge error"
                if problem is None and ta is not None:
                    # the ancestor listing is not in the store (an older revision, not fetched): whatever merge() does about that,
                    # it must not hand back a listing other than the three-way merge (e.g. one that resurrects a removed entry)
                    ap = odb.oid_to_path(ta.hash_info.value)
                    if os.path.exists(ap):
                        os.chmod(ap, 0o644); os.unlink(ap)  # noqa: E702
                    try:
                        got = merge(odb, ta.hash_info, to.hash_info, tt.hash_info, allowed=allowed)
                        if exp_h is None or {k: h.value for k, m, h in got} != exp_h:
                            problem = "merge() with the ancestor listing missing from the store returned a listing that is not the three-way merge"
                    except Exception:  # noqa: BLE001,S110  (refusing is fine)
                        pass
                if problem:
                    fails.append({"allowed": allowed, "ancestor": sorted(map(str, anc)), "ours": {str(k): str(v[1].value)[:1] + ("x" if v[0].isexec else "") for k, v in ours.items()},
                                  "theirs": {str(k): str(v[1].value)[:1] + ("x" if v[0].isexec else "") for k, v in theirs.items()}, "problem": problem} if len(fails) < 5 else None)
        # listings that hold an entry WITHOUT a hash (relpath only, as a partially hashed workspace leaves it): merge() must neither
        # drop it nor give the result an identifier other than the canonical one of the merged listing
        evals += 1
        nh = (Meta(size=3), HashInfo())
        v1, v2 = vals[1], vals[2]
        anc_, ours_, theirs_ = {("keep",): nh, ("a",): v1}, {("keep",): nh, ("a",): v1, ("b",): v2}, {("keep",): nh, ("a",): v1, ("d", "c"): v1}
        try:
            got = merge(odb, store(odb, anc_).hash_info, store(odb, ours_).hash_info, store(odb, theirs_).hash_info)
            want_ = {("keep",): nh, ("a",): v1, ("b",): v2, ("d", "c"): v1}
            if {k: (h.value if h else None) for k, m, h in got} != {k: (v[1].value if v[1] else None) for k, v in want_.items()}:
                fails.append({"allowed": None, "problem": f"merge(): a listing with a hash-less entry lost or changed entries: {sorted(k for k, _, _ in got)}"})
            elif got.hash_info != store(odb, {k: (None, v[1]) for k, v in want_.items()}).hash_info:
                fails.append({"allowed": None, "problem": "merge(): listing with a hash-less entry does not carry its canonical identifier"})
        except Exception as e:  # noqa: BLE001
            fails.append({"allowed": None, "problem": f"merge() of listings with a hash-less entry raised {type(e).__name__}: {e}"})
    # a side that only RE-LABELS an entry's algorithm (legacy md5-dos2unix -> md5, same digest) has changed that entry: compared here by
    # (name, value) pairs, independently of how the library defines equality of its records
    evals += 1
    lab = lambda d: {k: (v[1].name, v[1].value) for k, v in d.items()}  # noqa: E731
    old_l, new_l, other = (None, HashInfo("md5-dos2unix", "1" * 32)), (None, HashInfo("md5", "1" * 32)), (None, HashInfo("md5", "2" * 32))
    try:
        got = _merge({("a",): old_l}, {("a",): new_l}, {("a",): old_l, ("b",): other}, allowed=["add", "remove", "change"])
        if lab(got) != {("a",): ("md5", "1" * 32), ("b",): ("md5", "2" * 32)}:
            fails.append({"allowed": "all", "problem": f"_merge lost a re-labelled entry (ours changed only the algorithm name): {lab(got)}"})
    except Exception as e:  # noqa: BLE001
        fails.append({"allowed": "all", "problem": f"_merge of a re-labelled entry raised {type(e).__name__}: {e}"})
    try:
        got = _merge({("a",): old_l}, {("a",): new_l}, {("a",): other}, allowed=["add", "remove", "change"])
        fails.append({"allowed": "all", "problem": f"_merge accepted two different changes of one entry (re-label vs rewrite) silently: {lab(got)}"})
    except MergeError:
        pass
    except Exception as e:  # noqa: BLE001
        fails.append({"allowed": "all", "problem": f"conflicting changes raised {type(e).__name__} instead of a merge error"})
    for allowed in (None, ["add"], ["add", "remove"], ["add", "remove", "change"]):
        eff = set(allowed or ["add"])
        for anc, ours, theirs in triples:
            evals += 1
            exp = three_way(anc, ours, theirs, keys)
            res = {}
            for name, (x, y) in (("ab", (ours, theirs)), ("ba", (theirs, ours))):
                try:
                    res[name] = ("ok", _merge(dict(anc), dict(x), dict(y), allowed=allowed))
                except MergeError:
                    res[name] = ("merge_error", None)
                except Exception as e:  # noqa: BLE001
                    res[name] = ("other:" + type(e).__name__, None)
            problem = None
            for name, (st, val) in res.items():
                if st.startswith("other"):
                    problem = f"{st[6:]} escapes instead of a merge error"
                elif st == "ok" and (exp is None or val != exp):
                    problem = "result is not the three-way merge"
            if not problem and res["ab"][0] == "ok" and res["ba"][0] == "ok" and res["ab"][1] != res["ba"][1]:
                problem = "the two argument orders both succeed and differ"
            if not problem and res["ab"][0] == "ok":
                ko, kt = kinds(anc, ours, keys), kinds(anc, theirs, keys)
                if ko and kt and not (ko <= eff and kt <= eff):
                    problem = f"accepted although a side performs {sorted((ko | kt) - eff)} which the policy does not allow"
            if problem and len(fails) < 5:
                fails.append({"allowed": allowed, "ancestor": sorted(map(str, anc)), "ours": {str(k): str(v[1].value)[:1] + ("x" if v[0].isexec else "") for k, v in ours.items()},
                              "theirs": {str(k): str(v[1].value)[:1] + ("x" if v[0].isexec else "") for k, v in theirs.items()}, "problem": problem})
            elif problem:
                fails.append(None)
    nf = len(fails)
    return {"evaluations": evals, "distinct_nontrivial": evals, "failures": [f for f in fails if f][:3], "n_failures": nf,
            "exhaustive_within_bound": not (n and n < len(dicts) ** 3), "bound": "3-key universe (incl. a nested key), values {absent, v1, v2, v1-with-other-metadata}, 4 policies; merge() through a store on every 40th triple, also with the ancestor listing missing from the store and with 'ours' derived from the loaded ancestor object; one triple of listings holding a hash-less entry; a re-labelled entry (same digest, other algorithm name)"}


if __name__ == "__main__":
    print(json.dumps(main(int(sys.argv[1]) if len(sys.argv) > 1 else 0, int(os.environ.get("VERIF_SEED", "0") or 0)), default=str))
