"""Bounded stand-in for C10 at the level of dvc_data.hashfile.checkout.checkout() (whole statement).

(prior, target) pairs over nested trees with duplicate contents and empty files x (existing link type, configured
link type) x 2 store classes x with/without state x relink on/off.  Oracle, per scenario:
  1. a forced checkout leaves exactly the target's files and bytes;
  2. a second checkout reports nothing to do;
  3. after a relinking checkout every file is the configured link type (copy: independent inode; hardlink: the cache
     object's inode; symlink: points at the cache object);
  4. no object of the cache changed its bytes;
  5. with a state, the saved link record matches the resulting workspace (the state recognises the path as its own,
     unmodified link: get_unused_links([]) lists it).

usage: checkout_converge.py [N]   (seed from VERIF_SEED) -> JSON report, last line of stdout
"""
import logging; logging.disable(logging.CRITICAL)  # noqa: E702
import _memfs  # noqa: E402
import hashlib, json, os, random, shutil, sys, tempfile  # noqa: E401

SRC = os.environ.get("PYVC_REPO_SRC", "/repo/src")
sys.path.insert(0, SRC)
from dvc_objects.fs.local import LocalFileSystem  # noqa: E402

from dvc_data.hashfile.build import build  # noqa: E402
from dvc_data.hashfile.checkout import checkout  # noqa: E402
from dvc_data.hashfile.db import HashFileDB  # noqa: E402
from dvc_data.hashfile.db.local import LocalHashFileDB  # noqa: E402
from dvc_data.hashfile.state import State  # noqa: E402
from dvc_data.hashfile.transfer import transfer  # noqa: E402

FS = LocalFileSystem()
LINKS = ("copy", "hardlink", "symlink")
CONTENTS = [b"alpha", b"beta", b"alpha", b"", b"gamma\n", b"delta" * 50]


def md5(b):
    return hashlib.md5(b).hexdigest()  # noqa: S324


def rand_tree(rng):
    names = ["a", "b", "d1/c", "d1/d", "d1/d2/e", "d3/f", "z"]
    return {n: rng.choice(CONTENTS) for n in rng.sample(names, rng.randint(1, 6))}


def write_tree(root, files):
    os.makedirs(root, exist_ok=True)
    for rel, data in files.items():
        p = os.path.join(root, rel)
        os.makedirs(os.path.dirname(p), exist_ok=True)
        open(p, "wb").write(data)


def add_to_cache(cache, tmp, files, name):
    src = os.path.join(tmp, "stage_" + name)
    write_tree(src, files)
    staging, _, obj = build(cache, src, FS, "md5")
    transfer(staging, cache, {obj.hash_info}, shallow=False)
    shutil.rmtree(src)
    return obj


def snapshot(root):
    out = {}
    for d, _, fns in os.walk(root):
        for fn in fns:
            p = os.path.join(d, fn)
            out[os.path.relpath(p, root)] = open(p, "rb").read()
    return out


def cache_bytes(cache):
    out = {}
    for d, _, fns in os.walk(cache.path):
        for fn in fns:
            p = os.path.join(d, fn)
            out[os.path.relpath(p, cache.path)] = open(p, "rb").read()
    return out


def link_kind_ok(cache, path, data, kind):
    cpath = cache.oid_to_path(md5(data))
    st = os.lstat(path)
    import stat as _st

    if kind == "symlink":
        return _st.S_ISLNK(st.st_mode) and os.path.realpath(path) == os.path.realpath(cpath)
    if _st.S_ISLNK(st.st_mode):
        return False
    if kind == "hardlink":
        # dvc_objects never hard-links empty files (it copies them): an empty file is its own independent copy
        return st.st_ino == os.stat(cpath).st_ino or len(data) == 0
    return st.st_ino != os.stat(cpath).st_ino  # copy


def scenario(rng, idx):
    return dict(cls=("HashFileDB", "LocalHashFileDB")[idx % 2], existing=LINKS[(idx // 2) % 3], configured=LINKS[(idx // 6) % 3],
                with_state=bool((idx // 18) % 2), relink=rng.random() < 0.6, prior=rand_tree(rng), target=rand_tree(rng),
                single=rng.random() < 0.2, rm_dirs=rng.random() < 0.25, fallback=rng.random() < 0.3, same=rng.random() < 0.35, mix=(rng.randrange(1, 10**6) if rng.random() < 0.4 else 0))


def run_single_file(sc):
    """a single-file target: the ROOT entry has no metadata of its own; the prior file is an edited ordinary copy"""
    cls = {"HashFileDB": HashFileDB, "LocalHashFileDB": LocalHashFileDB}[sc["cls"]]
    problems = []
    with tempfile.TemporaryDirectory(dir="/var/tmp") as tmp:
        root = os.path.join(tmp, "repo")
        os.makedirs(root)
        cache = cls(FS, os.path.join(tmp, "cache"))
        os.makedirs(cache.path)
        state = State(root, os.path.join(tmp, "state")) if sc["with_state"] else None
        try:
            ws = os.path.join(root, "data.bin")
            src = os.path.join(tmp, "stage.bin")
            open(src, "wb").write(b"target bytes")
            staging, _, tobj = build(cache, src, FS, "md5")
            transfer(staging, cache, {tobj.hash_info}, shallow=False)
            cache.cache_types = [sc["existing"]]
            checkout(ws, FS, tobj, cache, force=True, state=state)
            if sc["same"]:
                pass  # the file has the target's bytes and the EXISTING link type: only a relinking checkout has something to do
            elif os.path.islink(ws) or os.stat(ws).st_nlink > 1:
                os.unlink(ws)
                open(ws, "wb").write(b"somebody edited this")  # an edited ordinary copy
            else:
                os.chmod(ws, 0o644)
                open(ws, "wb").write(b"somebody edited this")
            cache.cache_types = [sc["configured"]]
            checkout(ws, FS, tobj, cache, force=True, relink=sc["relink"], state=state)
            if open(ws, "rb").read() != b"target bytes":
                problems.append(f"single file: forced checkout (relink={sc['relink']}, {sc['configured']}) left {open(ws, 'rb').read()[:30]!r}")
            elif sc["relink"] and not link_kind_ok(cache, ws, b"target bytes", sc["configured"]):
                problems.append(f"single file: after a relinking checkout to {sc['configured']} (from {sc['existing']}, {'unedited' if sc['same'] else 'edited'}) the file is not that link type")
            elif checkout(ws, FS, tobj, cache, force=True, state=state):
                problems.append("single file: second checkout did not report 'nothing to do'")
        except Exception as e:  # noqa: BLE001
            problems.append(f"single file: raised {type(e).__name__}: {e}")
        finally:
            if state is not None:
                state.close()
    return problems


def run_one(sc):
    if sc.get("single"):
        return run_single_file(sc)
    cls = {"HashFileDB": HashFileDB, "LocalHashFileDB": LocalHashFileDB}[sc["cls"]]
    problems = []
    with tempfile.TemporaryDirectory(dir="/var/tmp") as tmp:
        root = os.path.join(tmp, "repo")
        os.makedirs(root)
        cache = cls(FS, os.path.join(tmp, "cache"))
        os.makedirs(cache.path)
        state = State(root, os.path.join(tmp, "state")) if sc["with_state"] else None
        try:
            ws = os.path.join(root, "data")
            target_files = sc["prior"] if sc["same"] else sc["target"]
            # paths must agree in kind between prior and target (the statement's premise): drop clashes file<->dir
            prior = {k: v for k, v in sc["prior"].items()
                     if not any(t.startswith(k + "/") or k.startswith(t + "/") for t in target_files)}
            cache.cache_types = [sc["existing"]]
            if prior:
                pobj = add_to_cache(cache, tmp, prior, "prior")
                checkout(ws, FS, pobj, cache, force=True, state=state)
            if prior and sc.get("mix"):
                # a workspace with a mixed history: some files are links of another type to their cache object
                mrng = random.Random(sc["mix"])
                for rel, data in prior.items():
                    kind = mrng.choice(LINKS + (None, None))
                    if kind is None or not data:
                        continue
                    p, cpath = os.path.join(ws, rel), cache.oid_to_path(md5(data))
                    if os.path.lexists(p):
                        os.unlink(p)
                    if kind == "hardlink":
                        os.link(cpath, p)
                    elif kind == "symlink":
                        os.symlink(cpath, p)
                    else:
                        shutil.copyfile(cpath, p)
            if prior and sc.get("rm_dirs") and os.path.isdir(ws):
                # the user removes whole nested directories after the first checkout (same process, same workspace)
                for d_ in sorted(os.listdir(ws)):
                    if os.path.isdir(os.path.join(ws, d_)) and not os.path.islink(os.path.join(ws, d_)):
                        shutil.rmtree(os.path.join(ws, d_))
            tobj = add_to_cache(cache, tmp, target_files, "target")
            # the configured list may name a fallback behind the link type ("hardlink,copy"): the type in effect is the first
            cache.cache_types = [sc["configured"]] + (["copy"] if sc.get("fallback") and sc["configured"] != "copy" else [])
            before = cache_bytes(cache)
            try:
                r1 = checkout(ws, FS, tobj, cache, force=True, relink=sc["relink"], state=state)
            except Exception as e:  # noqa: BLE001
                return [f"forced checkout raised {type(e).__name__}: {e}"]
            got = snapshot(ws)
            if got != target_files:
                problems.append(f"workspace differs from target: extra={sorted(set(got) - set(target_files))} "
                                f"missing={sorted(set(target_files) - set(got))} "
                                f"changed={sorted(k for k in got if k in target_files and got[k] != target_files[k])}")
            if sc["relink"] and not problems:
                # with a list, any of the listed types is "the configured link type" (a copy satisfies "hardlink,copy")
                kinds = [sc["configured"]] + (["copy"] if sc.get("fallback") else [])
                bad = [k for k, v in target_files.items() if not any(link_kind_ok(cache, os.path.join(ws, k), v, kd) for kd in kinds)]
                if bad:
                    problems.append(f"after relink to {sc['configured']} (from {sc['existing']}) not that link type: {sorted(bad)}")
            if state is not None and not problems and (r1 or sc["relink"]):  # a record is saved when something was done
                unused = state.get_unused_links([], FS)
                if os.path.relpath(ws, root) not in unused:
                    problems.append("saved link record does not match the resulting workspace (inode/mtime token differ)")
            try:
                r2 = checkout(ws, FS, tobj, cache, force=True, state=state)
            except Exception as e:  # noqa: BLE001
                r2 = f"raised {type(e).__name__}"
            if r2:
                problems.append(f"second checkout did not report 'nothing to do': {r2!r}")
            if snapshot(ws) != target_files and not problems:
                problems.append("second checkout changed the workspace")
            after = cache_bytes(cache)
            changed = [k for k in before if after.get(k) != before[k]]
            if changed:
                problems.append(f"cache objects changed bytes: {changed[:3]}")
        finally:
            if state is not None:
                state.close()
    return problems


def main():
    n = int(sys.argv[1]) if len(sys.argv) > 1 else 72
    rng = random.Random(int(os.environ.get("VERIF_SEED", "1")))
    failures, evals = [], 0
    for i in range(n):
        _memfs.reset()
        sc = scenario(rng, i)
        ps = run_one(sc)
        evals += 1
        if ps:
            failures.append({"scenario": {k: (v if not isinstance(v, dict) else {a: b.decode() for a, b in v.items()}) for k, v in sc.items()}, "problems": ps})
    print(json.dumps({"evaluations": evals, "distinct_nontrivial": evals, "n_failures": len(failures), "failures": failures[:4],
                      "bound": f"{n} seeded (prior, target) pairs: <= 6 files in <= 3 levels, duplicate contents and empty files, 3x3 link types, "
                               "2 store classes, with/without state, relink on/off, single-file targets over an edited copy or over the unedited file of another link type; nested directories removed by hand between the checkouts; link type lists with a copy fallback; prior/target agree in kind"}))


if __name__ == "__main__":
    main()
