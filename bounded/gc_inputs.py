"""Bounded stand-in next to the proof of gc (C06): the proof models `used` as a sequence; what it cannot see is the KIND of
iterable the caller passes (a one-shot iterator is consumed by the first pass over it) and the legacy '.dir.unpacked'
directories on disk.  The scenario suite of replay/gc_scenarios.py is run as a whole: 2 store classes x 2 algorithms x
shallow/expand x dry/real x read-only x directory-only garbage x {list, set, generator} (exhaustive within the family).

usage: gc_inputs.py [N]  (N ignored) -> JSON report, last line of stdout
"""
import json
import os
import sys

sys.path.insert(0, os.path.join(os.path.dirname(os.path.dirname(os.path.abspath(__file__))), "replay"))
import gc_scenarios  # noqa: E402

reps = gc_scenarios.run()
bad = [r for r in reps if "violation" in r]
print(json.dumps({"evaluations": len(reps), "distinct_nontrivial": len(reps), "n_failures": len(bad), "failures": bad,
                  "bound": "gc scenario family: 2 store classes x 2 algorithms x shallow/expand x dry/real x read-only x directory-only garbage x "
                           "used given as list/set/generator (exhaustive); listings with a path/backslash twin; expanding runs with an unreadable used listing"}))
