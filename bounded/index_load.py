"""Bounded stand-in (NOT a proof): run-time check of the contract of _load_from_object_storage on generated directory objects.
Bound: keys of depth <= 4 over a 3-letter alphabet, <= 8 entries per tree; `n` trees per run (seeded)."""
import logging; logging.disable(logging.CRITICAL)
import json
import os
import random
import sys
import tempfile

SRC = os.environ.get("PYVC_REPO_SRC", "/repo/src")
sys.path.insert(0, SRC)


def main(n, seed):
    from dvc_objects.fs.local import LocalFileSystem
    from pygtrie import Trie

    from dvc_data.hashfile.db import HashFileDB
    from dvc_data.hashfile.hash_info import HashInfo
    from dvc_data.hashfile.meta import Meta
    from dvc_data.hashfile.tree import Tree
    from dvc_data.index.index import DataIndexEntry, ObjectStorage, _load_from_object_storage
    from dvc_data.hashfile.db import add_update_tree

    rnd = random.Random(seed)
    fails, evals, distinct = [], 0, set()
    with tempfile.TemporaryDirectory(dir="/var/tmp") as tmp:
        odb = HashFileDB(LocalFileSystem(), os.path.join(tmp, "odb"))
        for _ in range(n):
            keys = set()
            for _ in range(rnd.randint(1, 8)):
                k = tuple(rnd.choice("abc") for _ in range(rnd.randint(1, 4)))
                # a listing is a set of FILE paths: no key is a proper prefix of another
                if not any(k[: len(o)] == o or o[: len(k)] == k for o in keys):
                    keys.add(k)
            tree = Tree()
            for k in sorted(keys):
                tree.add(k, Meta(size=1), HashInfo("md5", "%032x" % rnd.getrandbits(128)))
            tree.digest()
            add_update_tree(odb, tree)
            root_key = tuple(rnd.choice("xy") for _ in range(rnd.randint(0, 2)))
            root = DataIndexEntry(key=root_key, meta=Meta(isdir=True), hash_info=tree.hash_info)
            trie = Trie()
            _load_from_object_storage(trie, root, ObjectStorage(key=(), odb=odb))
            evals += 1
            distinct.add(frozenset(keys))
            got = {k: v for k, v in trie.items()}
            expect_files = {root_key + k for k in keys}
            expect_dirs = {root_key + k[:j] for k in keys for j in range(1, len(k))}
            problems = []
            for k in expect_files:
                e = got.get(k)
                if e is None or e.hash_info != tree.get(k[len(root_key):])[1] or e.key != k:
                    problems.append(f"child {k} missing or wrong")
            for k in expect_dirs - expect_files:
                e = got.get(k)
                if e is None or not (e.meta and e.meta.isdir) or e.loaded is not True or e.key != k:
                    problems.append(f"implicit directory {k} missing or not a loaded directory entry")
            extra = set(got) - expect_files - expect_dirs
            if extra:
                problems.append(f"unexpected keys {sorted(extra)[:3]}")
            if problems:
                fails.append({"root_key": root_key, "listing": sorted(keys), "problems": problems[:4]})
    return {"evaluations": evals, "distinct_nontrivial": len(distinct), "failures": fails[:3], "n_failures": len(fails),
            "bound": "keys of depth <= 4 over {a,b,c}, <= 8 entries, root key depth <= 2"}


if __name__ == "__main__":
    print(json.dumps(main(int(sys.argv[1]) if len(sys.argv) > 1 else 200, int(os.environ.get("VERIF_SEED", "0") or 0))))
