"""Bounded stand-in (NOT a proof): a lazy index (directory given as one unloaded entry pointing at a directory object) behaves
like the explicitly expanded index, and filtered views expose exactly the keys satisfying a prefix-closed filter (C17).
Bound: one or two directory objects with <= 5 files, relpath depth <= 3, plus <= 2 loose files; access sequences of <= 4
operations from {getitem, contains, iteritems(prefix), ls, view.iteritems(prefix), view.ls, detailed ls / view.ls}; in-memory index; n cases (seeded)."""
import logging; logging.disable(logging.CRITICAL)
import _memfs  # noqa: E402
import hashlib, json, os, random, sys, tempfile
SRC = os.environ.get("PYVC_REPO_SRC", "/repo/src")
sys.path.insert(0, SRC)


def main(n, seed):
    from dvc_objects.fs.local import LocalFileSystem
    from dvc_data.hashfile.db import HashFileDB
    from dvc_data.hashfile.hash_info import HashInfo
    from dvc_data.hashfile.meta import Meta
    from dvc_data.index import DataIndex, DataIndexEntry, ObjectStorage
    from dvc_data.index.view import view as make_view

    rnd = random.Random(seed)
    fs = LocalFileSystem()
    fails, distinct = [], set()
    for case in range(n):
        _memfs.reset()
        with tempfile.TemporaryDirectory(dir="/var/tmp") as tmp:
            odb = HashFileDB(fs, os.path.join(tmp, "odb"))
            tops = rnd.sample(["d", "e"], rnd.randint(1, 2))
            listing = {}
            for top in tops:
                files = set()
                for _ in range(rnd.randint(1, 5)):
                    k = tuple(rnd.choice("xyz") for _ in range(rnd.randint(1, 3)))
                    if not any(k[: len(o)] == o or o[: len(k)] == k for o in files):
                        files.add(k)
                listing[top] = sorted(files)
            loose = [(f"f{i}",) for i in range(rnd.randint(0, 2))]
            with_meta = rnd.random() < 0.4

            def put(data):
                h = hashlib.md5(data).hexdigest(); odb.add_bytes(h, data); return h

            def mk(lazy):
                idx = DataIndex()
                for k in loose:
                    idx[k] = DataIndexEntry(key=k, meta=Meta(), hash_info=HashInfo("md5", put("/".join(k).encode())))
                for top, files in listing.items():
                    lst = [{"md5": put(("%s/%s" % (top, "/".join(k))).encode()), "relpath": "/".join(k)} for k in files]
                    if with_meta:  # a directory object written with per-file metadata (Tree.digest(with_meta=True))
                        for j, item in enumerate(lst):
                            item["size"] = 7 + j
                            if j % 2:
                                item["isexec"] = True
                    raw = json.dumps(sorted(lst, key=lambda d: d["relpath"]), sort_keys=True).encode()
                    oid = hashlib.md5(raw).hexdigest() + ".dir"; odb.add_bytes(oid, raw)
                    idx[(top,)] = DataIndexEntry(key=(top,), meta=Meta(isdir=True), hash_info=HashInfo("md5", oid))
                idx.storage_map.add_cache(ObjectStorage((), odb))
                if not lazy:
                    idx.load()
                return idx

            allkeys = set(loose) | {(t,) for t in listing} | {(t,) + k[:j] for t, fl in listing.items() for k in fl for j in range(1, len(k) + 1)}
            # prefix-closed filter: a key is in the view iff none of its prefixes is excluded
            banned = rnd.choice(sorted(allkeys)) if rnd.random() < 0.6 else None
            flt = (lambda key: True) if banned is None else (lambda key: key[: len(banned)] != banned)
            ops = []
            for _ in range(rnd.randint(1, 4)):
                kind = rnd.choice(["get", "in", "iter", "ls", "viter", "vls", "viter", "vlsd", "vlsd", "lsd"])
                k = rnd.choice(sorted(allkeys) + [("nope",), ()])
                ops.append((kind, k))
            distinct.add((tuple(sorted((t, tuple(v)) for t, v in listing.items())), tuple(ops), banned))

            def run(idx):
                vw = make_view(idx, flt)
                out = []
                for kind, k in ops:
                    try:
                        if kind == "get":
                            e = idx[k]; out.append(("get", k, e.hash_info.value if e.hash_info else None, bool(e.meta and e.meta.isdir)))
                        elif kind == "in":
                            out.append(("in", k, k in idx))
                        elif kind == "iter":
                            out.append(("iter", k, sorted((kk, e.hash_info.value if e.hash_info else None) for kk, e in idx.iteritems(k or None))))
                        elif kind == "ls":
                            out.append(("ls", k, sorted(idx.ls(k, detail=False))))
                        elif kind == "viter":
                            got = sorted(kk for kk, _ in vw.iteritems(k or None))
                            out.append(("viter", k, got))
                        elif kind == "vls":
                            out.append(("vls", k, sorted(vw.ls(k, detail=False))))
                        elif kind == "vlsd":  # the detailed listing (what the fs adaptor and diff() use)
                            out.append(("vlsd", k, sorted((kk, bool(info.get("isdir") or info.get("type") == "directory")) for kk, info in vw.ls(k, detail=True))))
                        elif kind == "lsd":
                            out.append(("lsd", k, sorted((kk, bool(info.get("isdir") or info.get("type") == "directory")) for kk, info in idx.ls(k, detail=True))))
                    except KeyError as e:
                        out.append((kind, k, "KeyError"))
                    except Exception as e:  # noqa: BLE001
                        out.append((kind, k, "raised " + type(e).__name__))
                return out

            # independent of the library's own expansion: iterating a fresh lazy index yields exactly the keys the listings name
            try:
                seen = sorted(k for k, _ in mk(True).iteritems())
                if seen != sorted(allkeys):
                    fails.append({"listing": {t: ["/".join(k) for k in v] for t, v in listing.items()}, "with_metadata": with_meta, "ops": [],
                                  "problem": f"iterating the lazy index yields {seen[:4]}.. but the listings name {sorted(allkeys)[:4]}.."})
                    continue
            except Exception as e:  # noqa: BLE001
                fails.append({"listing": {t: ["/".join(k) for k in v] for t, v in listing.items()}, "with_metadata": with_meta, "ops": [],
                              "problem": f"iterating the lazy index raised {type(e).__name__}: {str(e)[:100]}"})
                continue
            lazy_idx = mk(True)
            late = rnd.random() < 0.3
            if late:
                # the directory objects are not in storage at first (not fetched yet) and failures are reported through a
                # non-raising onerror; some accesses happen; the objects arrive; from then on the index answers like the expanded one
                lazy_idx.onerror = lambda *a_: None
                dirobjs = [odb.oid_to_path(o) for o in odb.all() if o.endswith(".dir")]
                for p_ in dirobjs:
                    os.rename(p_, p_ + ".away")
                saved_ops = ops
                ops = ops[: rnd.randint(1, len(ops))]
                run(lazy_idx)
                ops = saved_ops
                for p_ in dirobjs:
                    os.rename(p_ + ".away", p_)
            a, b = run(lazy_idx), run(mk(False))
            problem = None
            if a != b:
                i = next(i for i, (x, y) in enumerate(zip(a, b)) if x != y)
                problem = f"operation #{i} {ops[i]} differs: lazy={str(a[i][2])[:120]} expanded={str(b[i][2])[:120]}"
            else:
                for (kind, k, res, *_rest) in b:
                    if kind == "viter" and isinstance(res, list):
                        # keys under prefix k that satisfy the (prefix-closed) filter, as seen in the expanded index
                        want = sorted(kk for kk in allkeys if kk[: len(k)] == k and flt(kk) and (len(kk) > len(k) or k in allkeys) and (kk != k or True))
                        want = [kk for kk in want if all(flt(kk[:j]) for j in range(1, len(kk) + 1))]
                        if k != () and k not in allkeys:
                            continue
                        if sorted(res) != sorted(x for x in want if x != () ):
                            problem = f"view.iteritems({k}) = {res[:4]} but the keys satisfying the filter are {want[:4]}"
            if problem:
                fails.append({"listing": {t: ["/".join(k) for k in v] for t, v in listing.items()}, "filter_excludes": banned, "ops": ops, "directory_objects_arrive_late": late, "problem": problem})
    return {"evaluations": n, "distinct_nontrivial": len(distinct), "failures": fails[:3], "n_failures": len(fails),
            "bound": "<= 2 directory objects (<= 5 files, depth <= 3), <= 2 loose files, <= 4 access operations, in-memory index; 4 of 10 directory objects carry per-file metadata; in 3 of 10 cases the directory objects arrive in storage only after some accesses (non-raising onerror)"}


if __name__ == "__main__":
    print(json.dumps(main(int(sys.argv[1]) if len(sys.argv) > 1 else 100, int(os.environ.get("VERIF_SEED", "0") or 0)), default=str))
