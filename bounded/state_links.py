"""Bounded stand-in / native replay for C05's link clean-up clause (State.save_link / get_unused_links / remove_links).

Histories of record / modify / replace / touch / remove / re-create on tracked and untracked paths (files and
directories), then a clean-up with a random 'in use' list.  Oracle, from the statement: clean-up removes a path only if
 (1) the state recorded it itself, (2) the caller did not list it as in use, (3) it was not modified since it was recorded;
and it removes nothing else (snapshot of the whole root before/after).

usage: state_links.py [N]  (seed from VERIF_SEED) -> JSON report, last line of stdout
"""
import logging; logging.disable(logging.CRITICAL)  # noqa: E702
import json, os, random, shutil, sys, tempfile, time  # noqa: E401

SRC = os.environ.get("PYVC_REPO_SRC", "/repo/src")
sys.path.insert(0, SRC)
from dvc_objects.fs.local import LocalFileSystem  # noqa: E402

from dvc_data.hashfile.state import State  # noqa: E402

FS = LocalFileSystem()
NAMES = ["f1", "f2", "d1", "d2", "sub/f3", "other"]


def all_paths(root):
    out = set()
    for d, dns, fns in os.walk(root):
        for n in dns + fns:
            out.add(os.path.relpath(os.path.join(d, n), root))
    return out


def make(root, name, clock, rng):
    p = os.path.join(root, name)
    if os.path.lexists(p):
        shutil.rmtree(p) if os.path.isdir(p) else os.unlink(p)
    os.makedirs(os.path.dirname(p), exist_ok=True)
    if name.startswith("d"):
        os.makedirs(p)
        for k in range(rng.randint(2, 4)):
            # same file names in different sub-directories (train/x0, val/x0, x0): the token has to cover every PATH
            q = os.path.join(p, ["train", "val", ""][k % 3], "x0" if k < 3 else f"x{k}")
            os.makedirs(os.path.dirname(q), exist_ok=True)
            open(q, "wb").write(os.urandom(4))
            clock[0] += 1
            os.utime(q, (clock[0], clock[0]))
    else:
        open(p, "wb").write(os.urandom(4))
        clock[0] += 1
        os.utime(p, (clock[0], clock[0]))
    return p


def modify(root, name, clock, rng):
    """returns True if the path was modified in a way the statement counts (content / mtime / inode of it or a file below)"""
    p = os.path.join(root, name)
    if not os.path.lexists(p):
        return False
    kind = rng.choice(["rewrite", "touch", "replace", "add_child", "restore_older"])
    target = p
    if os.path.isdir(p):
        kids = sorted(os.path.relpath(os.path.join(d, f), p) for d, _, fs_ in os.walk(p) for f in fs_)
        if kind == "add_child" or not kids:
            target = os.path.join(p, f"new{rng.randrange(1000)}")
            open(target, "wb").write(b"n")
            clock[0] += 1
            os.utime(target, (clock[0], clock[0]))
            return True
        target = os.path.join(p, rng.choice(kids))
    if kind == "replace":
        tmp = target + ".tmp"
        open(tmp, "wb").write(os.urandom(4))
        os.replace(tmp, target)
    elif kind == "rewrite":
        open(target, "wb").write(os.urandom(5))
    elif kind == "restore_older":
        # an in-place overwrite that carries an OLDER timestamp (cp -p, tar -x, restore from backup): same inode, mtime goes back
        open(target, "wb").write(os.urandom(6))
        old_t = clock[0] - rng.randint(1000, 100000)
        os.utime(target, (old_t, old_t))
        return True
    clock[0] += 1
    os.utime(target, (clock[0], clock[0]))
    return True


def run_history(rng):
    with tempfile.TemporaryDirectory(dir="/var/tmp") as tmp:
        root = os.path.join(tmp, "repo")
        if rng.random() < 0.3:
            # the repository is reached through a symlinked directory (~/repo -> /disk2/projects/repo); every caller uses that prefix
            os.makedirs(os.path.join(tmp, "disk2", "projects", "repo"))
            os.symlink(os.path.join(tmp, "disk2", "projects", "repo"), root)
        else:
            os.makedirs(root)
        state = State(root, os.path.join(tmp, "state"))
        clock = [int(time.time()) - 5_000_000]
        recorded, dirty, log = set(), set(), []
        try:
            for _ in range(rng.randint(3, 12)):
                op, name = rng.choice(["make", "make", "record", "record", "record", "modify", "modify", "modify", "remove"]), rng.choice(NAMES)
                if op in ("modify", "remove") and recorded and rng.random() < 0.7:
                    name = rng.choice(sorted(recorded))  # the interesting histories touch what the state recorded
                if op == "record" and rng.random() < 0.5:
                    existing = [n for n in NAMES if os.path.lexists(os.path.join(root, n))]
                    name = rng.choice(existing) if existing else name
                p = os.path.join(root, name)
                if op == "make":
                    make(root, name, clock, rng)
                    if name in recorded:
                        dirty.add(name)
                elif op == "record" and os.path.lexists(p):
                    state.save_link(p, FS)
                    recorded.add(name)
                    dirty.discard(name)
                elif op == "modify":
                    if modify(root, name, clock, rng) and name in recorded:
                        dirty.add(name)
                elif op == "remove" and os.path.lexists(p):
                    shutil.rmtree(p) if os.path.isdir(p) else os.unlink(p)
                    if name in recorded:
                        dirty.add(name)
                else:
                    continue
                log.append((op, name))
            used_names = [n for n in NAMES if rng.random() < 0.3]
            used = [os.path.join(root, n) for n in used_names]
            before = all_paths(root)
            unused = state.get_unused_links(used, FS)
            state.remove_links(unused, FS)
            gone_top = {n for n in NAMES if os.path.join(root, n) and (n in before or any(b == n for b in before)) and not os.path.lexists(os.path.join(root, n))}
            gone = before - all_paths(root)
            problems = []
            for n in sorted(gone_top):
                if n not in recorded:
                    problems.append(f"removed {n!r}: never recorded by the state")
                if n in used_names:
                    problems.append(f"removed {n!r}: listed as in use")
                if n in dirty:
                    problems.append(f"removed {n!r}: modified since it was recorded")
            stray = {g for g in gone if not any(g == n or g.startswith(n + os.sep) for n in gone_top)}
            if stray:
                problems.append(f"paths outside the returned links disappeared: {sorted(stray)[:3]}")
            if set(unused) != gone_top and not problems:
                problems.append(f"returned {sorted(unused)} but removed {sorted(gone_top)}")
            if problems:
                return [{"history": log, "used": used_names, "returned": sorted(unused), "problems": problems}]
        finally:
            state.close()
    return []


def main():
    n = int(sys.argv[1]) if len(sys.argv) > 1 else 300
    rng = random.Random(int(os.environ.get("VERIF_SEED", "1")))
    failures, evals = [], 0
    for _ in range(n):
        try:
            failures += run_history(rng)
        except Exception as e:  # noqa: BLE001
            failures.append({"problems": [f"raised {type(e).__name__}: {str(e)[:120]}"]})
        evals += 1
    print(json.dumps({"evaluations": evals, "distinct_nontrivial": evals, "n_failures": len(failures), "failures": failures[:4],
                      "bound": f"{n} seeded histories of <= 12 operations (make/record/modify/remove) over 6 paths (files, directories, nested), then one clean-up; in 3 of 10 the repository root is a symlink"}))


if __name__ == "__main__":
    main()
