"""Bounded stand-in / native replay for C05 at the level of dvc_data.hashfile.checkout.checkout().

Workspace histories x targets x store classes x link types x relink x prompt(absent/declining), no force.
Oracle (the statement itself): snapshot the workspace before and after; every byte string that was in a
regular workspace file before and is not in that file afterwards (file gone, or other content) must be
recoverable: an intact object with that content's id is in the cache.  Outcome (return / any exception) is irrelevant.

usage: checkout_ws.py [N]      (seed from VERIF_SEED)   -> JSON report on stdout
"""
import logging; logging.disable(logging.CRITICAL)  # noqa: E702
import _memfs  # noqa: E402
import hashlib, itertools, json, os, random, shutil, sys, tempfile  # noqa: E401

SRC = os.environ.get("PYVC_REPO_SRC", "/repo/src")
sys.path.insert(0, SRC)
from dvc_objects.fs.local import LocalFileSystem  # noqa: E402

from dvc_data.hashfile.build import build  # noqa: E402
from dvc_data.hashfile.checkout import checkout  # noqa: E402
from dvc_data.hashfile.db import HashFileDB  # noqa: E402
from dvc_data.hashfile.db.local import LocalHashFileDB  # noqa: E402
from dvc_data.hashfile.transfer import transfer  # noqa: E402

FS = LocalFileSystem()


def md5(b):
    return hashlib.md5(b).hexdigest()  # noqa: S324


def snapshot(root):
    """{relative path: bytes} of regular files and links-to-files below root ('' = root itself when it is a file)"""
    out = {}
    if os.path.isfile(root):
        out[""] = open(root, "rb").read()
    elif os.path.isdir(root):
        for d, _, fns in os.walk(root):
            for fn in fns:
                p = os.path.join(d, fn)
                try:
                    out[os.path.relpath(p, root)] = open(p, "rb").read()
                except OSError:
                    out[os.path.relpath(p, root)] = None  # dangling link: nothing to lose
    return out


def in_cache(cache, content):
    p = cache.oid_to_path(md5(content))
    try:
        return open(p, "rb").read() == content
    except OSError:
        return False


def write_tree(root, files):
    if isinstance(files, bytes):
        open(root, "wb").write(files)
        return
    os.makedirs(root, exist_ok=True)
    for rel, data in files.items():
        p = os.path.join(root, rel)
        os.makedirs(os.path.dirname(p), exist_ok=True)
        open(p, "wb").write(data)


def add_to_cache(cache, tmp, files, name):
    """build + transfer `files` (dict or bytes) into the cache; returns the object"""
    src = os.path.join(tmp, "stage_" + name)
    write_tree(src, files)
    staging, _, obj = build(cache, src, FS, "md5")
    transfer(staging, cache, {obj.hash_info}, shallow=False)
    if os.path.isdir(src):
        shutil.rmtree(src)
    else:
        os.unlink(src)
    return obj


def corrupt_object(cache, content):
    """tamper with an object after it was added: rewrite its bytes, leave it NOT write-protected"""
    p = cache.oid_to_path(md5(content))
    if os.path.exists(p):
        tmp = p + ".tamper"
        open(tmp, "wb").write(b"tampered:" + content[::-1])
        os.replace(tmp, p)  # a new inode: workspace files hard-linked to the object keep their own (good) bytes


def drop_object(cache, content):
    p = cache.oid_to_path(md5(content))
    if os.path.exists(p):
        os.chmod(p, 0o644)
        os.unlink(p)


def scenario(rng, idx):
    cls = (HashFileDB, LocalHashFileDB)[idx % 2]
    link = ("copy", "hardlink", "symlink")[(idx // 2) % 3]
    names = ["a", "b", "sub/c", "sub/deep/d"]
    ws_files = {n: f"v1-{n}-{rng.randrange(3)}".encode() for n in rng.sample(names, rng.randint(1, 4))}
    ws_is_file = rng.random() < 0.15
    target_kind = rng.choice(["none", "same", "other", "file", "subset"])
    relink = rng.random() < 0.4
    prompt = rng.choice([None, "decline"])
    # user activity after the last checkout: edits / additions whose content never reached the cache,
    # and cache objects lost since
    edits = {n: f"edited-{n}-{rng.randrange(100)}".encode() for n in ws_files if rng.random() < 0.3}
    extra = {n: f"new-{n}".encode() for n in ("x", "sub/y") if rng.random() < 0.25}
    lost = [n for n in ws_files if rng.random() < 0.3]
    lose_dir_obj = rng.random() < 0.15
    dangling = rng.choice([None, None, None, None, "dangling", "sub/dangling"])  # a symlink whose target is gone, left in the workspace
    if dangling and not edits:
        n0 = sorted(ws_files)[0]
        edits = {n0: f"edited-{n0}-next-to-a-dangling-link".encode()}
    corrupt = [n for n in ws_files if rng.random() < 0.2]          # cache objects tampered with after they were added
    corrupt_target = rng.random() < 0.3
    return dict(trailing_sep=rng.random() < 0.25, dangling=dangling, corrupt=corrupt, corrupt_target=corrupt_target, cls=cls.__name__, link=link, ws_files=ws_files, ws_is_file=ws_is_file, target=target_kind, relink=relink, prompt=prompt,
                edits=edits, extra=extra, lost=lost, lose_dir_obj=lose_dir_obj)


def run_one(sc):
    cls = {"HashFileDB": HashFileDB, "LocalHashFileDB": LocalHashFileDB}[sc["cls"]]
    with tempfile.TemporaryDirectory(dir="/var/tmp") as tmp:
        cache = cls(FS, os.path.join(tmp, "cache"))
        cache.cache_types = [sc["link"]]
        os.makedirs(cache.path)
        ws = os.path.join(tmp, "ws")
        base = sc["ws_files"]
        if sc["ws_is_file"]:
            base = next(iter(base.values()))
        cur = add_to_cache(cache, tmp, base, "cur")
        try:
            checkout(ws, FS, cur, cache, force=True)  # the workspace as a previous checkout left it
        except Exception as e:  # noqa: BLE001
            return {"skipped": "setup checkout failed: " + repr(e)}
        if sc["target"] == "same":
            tgt, tgt_files = cur, (base if isinstance(base, dict) else {"": base})
        elif sc["target"] == "none":
            tgt, tgt_files = None, {}
        elif sc["target"] == "file":
            tgt, tgt_files = add_to_cache(cache, tmp, b"a single file", "tgt"), {"": b"a single file"}
        elif sc["target"] == "subset" and isinstance(base, dict):
            keep = dict(list(base.items())[: max(1, len(base) // 2)])
            tgt, tgt_files = add_to_cache(cache, tmp, keep, "tgt"), keep
        else:
            tgt_files = {"a": b"other-a", "n/new": b"other-new"}
            tgt = add_to_cache(cache, tmp, tgt_files, "tgt")
        # user activity
        if isinstance(base, dict):
            for n, data in {**sc["edits"], **sc["extra"]}.items():
                p = os.path.join(ws, n)
                os.makedirs(os.path.dirname(p), exist_ok=True)
                if os.path.lexists(p):
                    if os.path.islink(p) or os.stat(p).st_nlink > 1:
                        os.unlink(p)  # editors replace links; never write through to the cache object
                    else:
                        os.chmod(p, 0o644)
                open(p, "wb").write(data)
            for n in sc["lost"]:
                drop_object(cache, base[n])
            if sc.get("dangling"):
                p = os.path.join(ws, sc["dangling"])
                os.makedirs(os.path.dirname(p), exist_ok=True)
                if not os.path.lexists(p):
                    os.symlink(os.path.join(tmp, "no-such-target"), p)
        elif sc["lost"]:
            drop_object(cache, base)
        if sc["link"] == "symlink":
            # a symlinked workspace file IS the cache object: tampering with the object is not a workspace history
            sc = dict(sc, corrupt=[], corrupt_target=False)
        if isinstance(base, dict):
            for n in sc.get("corrupt", []):
                corrupt_object(cache, base[n])
        if sc.get("corrupt_target") and tgt_files:
            corrupt_object(cache, sorted(tgt_files.values())[0])
        if sc["lose_dir_obj"] and cur.hash_info.isdir:
            p = cache.oid_to_path(cur.hash_info.value)
            os.chmod(p, 0o644)
            os.unlink(p)
        before = snapshot(ws)
        outcome = "returned"
        try:
            # the same directory may be spelled with a trailing separator ("data/"): the guards must not depend on the spelling
            spelled = ws + os.sep if (sc.get("trailing_sep") and os.path.isdir(ws)) else ws
            checkout(spelled, FS, tgt, cache, force=False, relink=sc["relink"], prompt=(None if sc["prompt"] is None else (lambda msg: False)))
        except Exception as e:  # noqa: BLE001
            outcome = type(e).__name__
        after = snapshot(ws)
        lost = []
        for rel, data in before.items():
            if data is None or after.get(rel) == data:
                continue
            if not in_cache(cache, data):
                lost.append({"path": rel or ".", "content": data.decode(errors="replace"), "now": (after.get(rel) or b"<gone>").decode(errors="replace")})
        rep = {"outcome": outcome, "changed": sum(1 for r, d in before.items() if after.get(r) != d)}
        # C07: checkout refuses to materialise a corrupted object -- whatever it wrote is the target's bytes
        wrong = [{"path": rel or ".", "now": (data or b"").decode(errors="replace")} for rel, data in after.items()
                 if data != before.get(rel) and rel in tgt_files and data != tgt_files[rel]]
        if wrong:
            rep["violation"] = "checkout materialised bytes that are not the target's (corrupted cache object served)"
            rep["wrong"] = wrong
        if lost:
            rep["violation"] = "unrecoverable workspace content destroyed without force/consent"
            rep["lost"] = lost
        return rep


def main():
    n = int(sys.argv[1]) if len(sys.argv) > 1 else 60
    rng = random.Random(int(os.environ.get("VERIF_SEED", "1")))
    failures, evaluations, nontrivial = [], 0, 0
    for i in range(n):
        _memfs.reset()
        sc = scenario(rng, i)
        try:
            rep = run_one(sc)
        except Exception as e:  # noqa: BLE001
            rep = {"changed": 0, "violation": f"raised {type(e).__name__}: {str(e)[:120]}"}
        if "skipped" in rep:
            continue
        evaluations += 1
        nontrivial += 1 if rep["changed"] else 0
        if "violation" in rep:
            failures.append({"scenario": {k: (v if not isinstance(v, dict) else {a: b.decode() for a, b in v.items()}) for k, v in sc.items()}, **rep})
    print(json.dumps({
        "evaluations": evaluations, "distinct_nontrivial": nontrivial, "n_failures": len(failures), "failures": failures[:5],
        "bound": f"{n} seeded workspace histories: <=4 tracked files in <=3 directory levels, edits/additions/dangling symlinks/lost or tampered cache objects, "
                 "targets none/same/other/file/subset, 2 store classes x 3 link types, relink on/off, prompt absent/declining, force never; a quarter with the checkout path spelled with a trailing separator",
    }))


if __name__ == "__main__":
    main()
