"""Bounded stand-in for the fs-adaptor clause of C17 (dvc_data/fs.py: DataFileSystem over an index):
listing, metadata and FILE CONTENTS through the adaptor agree with the index and with the bytes held in storage,
for a lazily loaded directory object exactly as for its explicit expansion.

An index with a cache and a remote object storage; each file's object is in the cache, in the remote, in both, or in
neither.  Oracle: for every file whose object is in some configured storage, cat_file / open().read() / get_file give
exactly its bytes (whichever storage holds it); for a file in neither, reading fails with an error (never other bytes);
ls()/info() of every directory list the same children for the lazy and for the expanded index, in any access order.

usage: index_fs.py [N]  (seed from VERIF_SEED) -> JSON report, last line of stdout
"""
import logging; logging.disable(logging.CRITICAL)  # noqa: E702
import _memfs  # noqa: E402
import hashlib, json, os, random, sys, tempfile  # noqa: E401

SRC = os.environ.get("PYVC_REPO_SRC", "/repo/src")
sys.path.insert(0, SRC)
from dvc_objects.fs.local import LocalFileSystem  # noqa: E402

from dvc_data.fs import DataFileSystem  # noqa: E402
from dvc_data.hashfile.db import HashFileDB  # noqa: E402
from dvc_data.hashfile.hash_info import HashInfo  # noqa: E402
from dvc_data.hashfile.meta import Meta  # noqa: E402
from dvc_data.index import DataIndex, DataIndexEntry, FileStorage, ObjectStorage  # noqa: E402


def md5(b):
    return hashlib.md5(b).hexdigest()  # noqa: S324


def run_one(rng, tmp, i):
    lfs = LocalFileSystem()
    cache = HashFileDB(lfs, os.path.join(tmp, f"cache{i}"))
    remote = HashFileDB(lfs, os.path.join(tmp, f"remote{i}"))
    rels = set()
    for _ in range(rng.randint(1, 5)):
        k = tuple(rng.choice("xyz") for _ in range(rng.randint(1, 3)))
        if not any(k[: len(o)] == o or o[: len(k)] == k for o in rels):
            rels.add(k)
    files = {("data",) + k: f"content of {'/'.join(k)} #{i}".encode() for k in rels}
    loose = {(f"f{j}",): f"loose {j} #{i}".encode() for j in range(rng.randint(0, 2))}
    where = {}
    for k, data in {**files, **loose}.items():
        w = rng.choice(["cache", "remote", "both", "both", "none"])
        where[k] = w
        if w in ("cache", "both"):
            cache.add_bytes(md5(data), data)
        if w in ("remote", "both"):
            remote.add_bytes(md5(data), data)
    listing = json.dumps(sorted(({"md5": md5(d), "relpath": "/".join(k[1:])} for k, d in files.items()), key=lambda e: e["relpath"]), sort_keys=True).encode()
    doid = md5(listing) + ".dir"
    where_dir = rng.choice(["cache", "remote", "corrupt-cache+remote"])
    if where_dir == "cache":
        cache.add_bytes(doid, listing)
    else:
        remote.add_bytes(doid, listing)
        if where_dir.startswith("corrupt"):
            cache.add_bytes(doid, listing[: len(listing) // 2])  # a truncated copy in the earlier storage: the intact one must be used
    cache_first = rng.random() < 0.5

    # some loose files also have a path-addressed working copy ("data" storage) next to their object in the cache; the working copy
    # was EDITED after the index was recorded: the adaptor has to deliver the bytes the index names (the object), not the edit
    ws = os.path.join(tmp, f"ws{i}")
    edited = {}
    for k, d in loose.items():
        if where[k] in ("cache", "both") and rng.random() < 0.5:
            os.makedirs(ws, exist_ok=True)
            edited[k] = b"edited after the index was recorded: " + d
            open(os.path.join(ws, k[0]), "wb").write(edited[k])

    def mk(lazy):
        idx = DataIndex()
        idx.onerror = lambda *a: None  # a storage that cannot deliver is reported and the next one is tried
        for k, d in loose.items():
            idx[k] = DataIndexEntry(key=k, meta=Meta(size=len(d)), hash_info=HashInfo("md5", md5(d)))
        idx[("data",)] = DataIndexEntry(key=("data",), meta=Meta(isdir=True), hash_info=HashInfo("md5", doid))
        idx.storage_map.add_cache(ObjectStorage((), cache))
        idx.storage_map.add_remote(ObjectStorage((), remote))
        if edited:
            idx.storage_map.add_data(FileStorage((), lfs, ws))
        if not lazy:
            idx.load()
        return idx

    probs = []
    views = {}
    for lazy in (True, False):
        fs = DataFileSystem(mk(lazy))
        order = list({**files, **loose})
        rng.shuffle(order)
        seen = {}
        for k in order:
            path = "/".join(k)
            want, w = {**files, **loose}[k], where[k]
            for how in ("cat", "open", "get"):
                try:
                    if how == "cat":
                        got = fs.cat_file(path)
                    elif how == "open":
                        with fs.open(path, "rb") as f:
                            got = f.read()
                    else:
                        dst = os.path.join(tmp, f"out{i}-{lazy}-{md5(path.encode())[:6]}")
                        fs.get_file(path, dst)
                        got = open(dst, "rb").read()
                except Exception as e:  # noqa: BLE001
                    got = ("error", type(e).__name__)
                if w == "none":
                    if not isinstance(got, tuple):
                        probs.append(f"{how}({path}) returned bytes although no storage holds the object")
                elif got != want:
                    probs.append(f"{how}({path}) with the object in {w}: got {got!r:.60}, storage holds {want!r:.40} (lazy={lazy})")
            seen[path] = True
        dirs = {()} | {k[:j] for k in files for j in range(1, len(k))}
        ls = {}
        for d in sorted(dirs):
            try:
                ls[d] = sorted(fs.ls("/".join(d) if d else "", detail=False))
            except Exception as e:  # noqa: BLE001
                ls[d] = ("error", type(e).__name__)
        views[lazy] = ls
    if views[True] != views[False]:
        d = next(k for k in views[True] if views[True][k] != views[False][k])
        probs.append(f"ls({'/'.join(d)}) differs: lazy {views[True][d]} vs expanded {views[False][d]}")
    return [{"where": {"/".join(k): v for k, v in where.items()}, "problems": probs[:3]}] if probs else []


def main():
    n = int(sys.argv[1]) if len(sys.argv) > 1 else 100
    rng = random.Random(int(os.environ.get("VERIF_SEED", "1")))
    failures = []
    with tempfile.TemporaryDirectory(dir="/var/tmp") as tmp:
        for i in range(n):
            _memfs.reset()
            try:
                failures += run_one(rng, tmp, i)
            except Exception as e:  # noqa: BLE001  (the code under test raised where the statement promises an answer)
                failures.append({"problems": [f"raised {type(e).__name__}: {str(e)[:120]}"]})
    print(json.dumps({"evaluations": n, "distinct_nontrivial": n, "n_failures": len(failures), "failures": failures[:4],
                      "bound": f"{n} seeded indexes: one directory object (<= 5 files, depth <= 3) + <= 2 loose files, cache and remote storages, "
                               "each object in cache / remote / both / neither, the directory listing possibly truncated in the cache and intact in the remote; cat_file, open, get_file, ls; lazy and expanded; loose files with an edited working copy registered as data storage next to the cached object"}))


if __name__ == "__main__":
    main()
