"""Bounded stand-in (NOT a proof): index diff traversal and rename pairing against a flat key-by-key reference (C08 b, c).
Bound: keys over {a,b,c} of depth <= 3, <= 6 files per side, explicit directory entries whose hash is a digest of their
subtree (so equal directory hashes imply equal subtrees), file<->directory kind changes included; all 2^3 combinations of
with_unchanged / hash_only / with_renames (meta_only excluded with renames); n pairs (seeded)."""
import logging; logging.disable(logging.CRITICAL)
import hashlib, json, os, random, sys
from collections import Counter
SRC = os.environ.get("PYVC_REPO_SRC", "/repo/src")
sys.path.insert(0, SRC)


def gen(rnd):
    files = {}
    for _ in range(rnd.randint(0, 6)):
        k = tuple(rnd.choice("abc") for _ in range(rnd.randint(1, 3)))
        if any(k[: len(o)] == o or o[: len(k)] == k for o in files):
            continue
        files[k] = rnd.choice(["1", "2", "3"]) + rnd.choice(["", "", "x"])  # content digit + metadata-only flag (exec bit)
    return files


def main(n, seed):
    from dvc_data.hashfile.hash_info import HashInfo
    from dvc_data.hashfile.meta import Meta
    from dvc_data.index import DataIndex, DataIndexEntry
    from dvc_data.index.diff import ADD, DELETE, RENAME, UNCHANGED, _diff_entry, diff

    rnd = random.Random(seed)
    fails, distinct = [], set()

    def build(files, hashless_dirs=False):
        idx = DataIndex()
        entries = {}
        dirs = {k[:j] for k in files for j in range(1, len(k))}
        for d in sorted(dirs):
            sub = sorted((k, v) for k, v in files.items() if k[: len(d)] == d)
            h = hashlib.md5(repr([(k[len(d):], v[0]) for k, v in sub]).encode()).hexdigest() + ".dir"  # listing = hashes only
            # directory entries as a loaded tree object leaves them: metadata only, no hash
            entries[d] = DataIndexEntry(key=d, meta=Meta(isdir=True), hash_info=None if hashless_dirs else HashInfo("md5", h), loaded=True)
        for k, v in files.items():
            # content digit 3 doubles as "never hashed": an entry without hash information
            entries[k] = DataIndexEntry(key=k, meta=Meta(size=int(v[0]), isexec=v.endswith("x")),
                                        hash_info=None if (hashless_dirs and v[0] == "3") else HashInfo("md5", v[0] * 32))
        for k, e in entries.items():
            idx[k] = e
        return idx, entries

    for case in range(n):
        fo, fn = gen(rnd), gen(rnd)
        if rnd.random() < 0.3:
            extra = {k: v for k, v in list(fn.items())[:1] if not any(k[: len(o)] == o or o[: len(k)] == k for o in fo)}
            fn = dict(fo)
            fn.update(extra)
            for k in list(fn):
                if rnd.random() < 0.3:  # a metadata-only change below possibly unchanged hashed directories
                    fn[k] = fn[k][0] + ("" if fn[k].endswith("x") else "x")
        wu, ho, wr = rnd.random() < 0.5, rnd.random() < 0.4, rnd.random() < 0.4
        mo = (not ho) and (not wr) and rnd.random() < 0.25
        distinct.add((tuple(sorted(fo.items())), tuple(sorted(fn.items())), wu, ho, wr, mo))
        hl = rnd.random() < 0.3
        old, eo = build(fo, hl)
        new, en = build(fn, hl)
        # restricting the diff to some roots (disjoint top-level keys that exist on either side)
        tops = sorted({k[:1] for k in set(eo) | set(en)})
        roots = rnd.sample(tops, rnd.randint(1, len(tops))) if (tops and not wr and rnd.random() < 0.25) else None
        problem = None
        try:
            kw = {"roots": roots} if roots is not None else {}
            got = list(diff(old, new, with_unchanged=wu, hash_only=ho, with_renames=wr, meta_only=mo, **kw))
            # swapping the arguments swaps added and deleted and nothing else -- for every option combination, shallow included
            # (a hashed directory is then opaque on its own side; here some directories are hashed on one side only)
            for sh in (False, True):
                o2, n2 = (build(fo, hl)[0], build(fn, not hl if sh else hl)[0])
                fwd = Counter((c.typ, c.key) for c in diff(o2, n2, with_unchanged=wu, hash_only=ho, meta_only=mo, shallow=sh, **kw))
                o3, n3 = (build(fo, hl)[0], build(fn, not hl if sh else hl)[0])
                bwd = Counter(({ADD: DELETE, DELETE: ADD}.get(c.typ, c.typ), c.key) for c in diff(n3, o3, with_unchanged=wu, hash_only=ho, meta_only=mo, shallow=sh, **kw))
                if fwd != bwd and problem is None:
                    problem = f"diff(new, old) is not the mirror image of diff(old, new) (shallow={sh}): only forward {sorted((fwd - bwd).elements())[:3]}, only backward {sorted((bwd - fwd).elements())[:3]}"
            # an index derived from the other one (DataIndex(old) copies the mapping, not the entries: unchanged entries -- directory
            # entries included -- are the very same objects on both sides) and then edited below such a shared directory entry
            if hl and not wr and problem is None:
                # shallow only makes HASHED directories opaque: with no hashed directory anywhere it must change nothing
                a_ = Counter((c.typ, c.key) for c in diff(build(fo, True)[0], build(fn, True)[0], with_unchanged=wu, hash_only=ho, meta_only=mo, shallow=True, **kw))
                b_ = Counter((c.typ, c.key) for c in diff(build(fo, True)[0], build(fn, True)[0], with_unchanged=wu, hash_only=ho, meta_only=mo, shallow=False, **kw))
                if a_ != b_:
                    problem = f"shallow=True changes the result although no directory is hashed: only shallow {sorted((a_ - b_).elements())[:3]}, only full {sorted((b_ - a_).elements())[:3]}"
            if not wr and roots is None and problem is None and hl:  # hash-less directory entries, as build() leaves them
                shared = build(fo, True)[0]
                eo2 = dict(shared.iteritems())
                derived = DataIndex(shared)
                for k in sorted(eo2, key=len, reverse=True):
                    if k not in en:
                        del derived[k]
                for k, e in en.items():
                    both_dirs = k in eo2 and bool(e.meta and e.meta.isdir) and bool(eo2[k].meta and eo2[k].meta.isdir)
                    if not both_dirs:
                        derived[k] = e  # a directory present on both sides stays the very same entry object
                ed = dict(derived.iteritems())
                got2 = Counter((c.typ, c.key) for c in diff(shared, derived, with_unchanged=wu, hash_only=ho, meta_only=mo))
                exp2 = Counter()
                for k in set(eo2) | set(ed):
                    t = _diff_entry(eo2.get(k), ed.get(k), hash_only=ho, meta_only=mo)
                    if not (t == UNCHANGED and not wu):
                        exp2[(t, k)] += 1
                if got2 != exp2:
                    problem = f"derived index sharing entry objects with the old one: unexpected={sorted((got2 - exp2).elements())[:3]} missing={sorted((exp2 - got2).elements())[:3]}"
            exp = Counter()
            for k in set(eo) | set(en):
                if roots is not None and not any(k[: len(r)] == r for r in roots):
                    continue
                t = _diff_entry(eo.get(k), en.get(k), hash_only=ho, meta_only=mo)
                if t == UNCHANGED and not wu:
                    continue
                exp[(t, k)] += 1
            if not wr:
                g = Counter((c.typ, c.key) for c in got)
                if g != exp and problem is None:
                    extra, miss = sorted((g - exp).elements())[:3], sorted((exp - g).elements())[:3]
                    problem = f"changes differ from the key-by-key reference: unexpected={extra} missing={miss}"
            else:
                plain = Counter((c.typ, c.key) for c in got if c.typ != RENAME)
                ren = [c for c in got if c.typ == RENAME]
                used_del = Counter(c.old.key for c in ren)
                used_add = Counter(c.new.key for c in ren)
                for c in ren:
                    if not c.old.hash_info or c.old.hash_info != c.new.hash_info:
                        problem = "a rename pairs entries with different (or empty) hashes"
                recon = Counter(plain)
                for k, m in used_del.items():
                    recon[(DELETE, k)] += m
                for k, m in used_add.items():
                    recon[(ADD, k)] += m
                if problem is None and recon != exp:
                    problem = f"with renames a key was lost or duplicated: {sorted((recon - exp).elements())[:2]} / {sorted((exp - recon).elements())[:2]}"
                if problem is None:
                    adds = [en[k].hash_info for (t, k) in plain if t == ADD]
                    dels = [eo[k].hash_info for (t, k) in plain if t == DELETE]
                    if any(a and a in dels for a in adds):
                        problem = "a removed and an added key with the same hash were left unpaired"
        except Exception as e:  # noqa: BLE001
            problem = "raised " + repr(e)
        if problem:
            fails.append({"old": {"/".join(k): v for k, v in fo.items()}, "new": {"/".join(k): v for k, v in fn.items()},
                          "with_unchanged": wu, "hash_only": ho, "meta_only": mo, "with_renames": wr, "hashless": hl, "roots": roots, "problem": problem})
    return {"evaluations": n, "distinct_nontrivial": len(distinct), "failures": fails[:3], "n_failures": len(fails),
            "bound": "keys over {a,b,c}, depth <= 3, <= 6 files per side, explicit hashed directory entries, metadata-only changes, entries without hash, hash_only / meta_only / renames / with_unchanged / roots; mirror-image check also with shallow=True and directories hashed on one side only; a derived index that shares entry objects with the old one; shallow = full when no directory is hashed"}


if __name__ == "__main__":
    print(json.dumps(main(int(sys.argv[1]) if len(sys.argv) > 1 else 300, int(os.environ.get("VERIF_SEED", "0") or 0)), default=str))
