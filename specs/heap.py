"""Heap classes (objects with identity) and spec functions shared by the contracts."""
import z3

from pyvc.specfn import ufn
from pyvc.types import SV, TAbs, TBool, TBytes, TInt, TOpt, TRef, TSet, TStr

# ---- hashing -------------------------------------------------------------
BinaryIO = TRef("BinaryIO", fields=dict(remaining=TBytes, full_reads=TBool))
Hasher = TRef("Hasher", fields=dict(fed=TBytes, name=TStr))
HashStreamFile = TRef(
    "HashStreamFile",
    fields=dict(fobj=BinaryIO, hasher=Hasher, total_read=TInt),
    qualname="dvc_data.hashfile.hash:HashStreamFile",
)
Dos2UnixHashStreamFile = TRef(
    "Dos2UnixHashStreamFile", fields={}, qualname="dvc_data.hashfile.hash:Dos2UnixHashStreamFile", bases=("HashStreamFile",)
)
Callback = TRef("Callback", fields={})


def H(alg: SV, content: SV) -> SV:
    """hex digest of `content` under hashlib/blake3 algorithm `alg` (uninterpreted)"""
    f = ufn("H", z3.StringSort(), TBytes.sort(), z3.StringSort())
    return SV(f(alg.t, content.t), TStr)


# ---- object stores, trees, remote index ----------------------------------
from pyvc.types import TKey, TList, TSeq, TSet, TTuple, canon  # noqa: E402
from specs.records import HashInfo, Meta  # noqa: E402

FileSystem = TRef("FileSystem", fields=dict(protocol=TStr, jobs=TInt, PARAM_CHECKSUM=TStr, sep=TStr, is_local=TBool, immutable=TBool,
                                            # ghost: paths that exist / paths removed so far (monotone log)
                                            files=TSet(TStr), removed=TSet(TStr)))
# objs: the abstract view of a store = the set of object ids present (as HashInfo(hash_name, oid))
HashFileDB = TRef(
    "HashFileDB",
    fields=dict(fs=FileSystem, path=TStr, hash_name=TStr, read_only=TBool, objs=TSet(HashInfo), cache_types=TList(TStr),
                # ghost: number of removals of things under the store root that are not objects (legacy unpacked dirs)
                nonobj_removals=TInt, verify=TBool, state=TRef.registry.get('StateBase') or TRef('StateBase', fields={}, qualname='dvc_data.hashfile.state:StateBase')),
    qualname="dvc_data.hashfile.db:HashFileDB",
)
LocalHashFileDB = TRef("LocalHashFileDB", fields={}, qualname="dvc_data.hashfile.db.local:LocalHashFileDB", bases=("HashFileDB",))


def o2p(path: SV, oid: SV) -> SV:
    """layout of an object store: <path>/<oid[0:2]>/<oid[2:]> (both store classes; posix separator)"""
    from pyvc.types import seq_slice

    return path + "/" + seq_slice(oid, 0, 2) + "/" + seq_slice(oid, 2, None)
ODBIndex = TRef("ObjectDBIndexBase", fields=dict(held=TSet(TOpt(TStr)), dirs=TSet(TOpt(TStr))))
TreeEntry3 = TTuple([TKey, TOpt(Meta), HashInfo])
Tree = TRef(
    "Tree",
    fields=dict(entries=TSeq(TreeEntry3), hash_info=TOpt(HashInfo), oid=TOpt(TStr)),
    qualname="dvc_data.hashfile.tree:Tree",
)


def tree_hids(d: SV) -> SV:
    """the set of file ids listed by THE directory object named d (content-addressing: a function of the id)"""
    f = ufn("tree_hids", HashInfo.sort(), TSet(HashInfo).sort())
    return SV(f(canon(d).t), TSet(HashInfo))


def isdir_hi(h: SV) -> SV:
    return h.value.is_some & SV(z3.SuffixOf(z3.StringVal(".dir"), h.value.val.t), TBool)


def closed(S: SV) -> SV:
    """every directory object in S has all the files it lists in S"""
    h = HashInfo.fresh("h!cl")
    body = z3.Implies(z3.And(S.contains(h).t, isdir_hi(h).t), tree_hids(h).subset(S).t)
    return SV(z3.ForAll([h.t], body), TBool)


def O(path: SV, oid: SV) -> SV:
    """path of an object as an abstract function, injective in the id; its definition is the layout o2p (O_def) and its
    injectivity for ids of length >= 2 is a lemma over that definition (C01)"""
    f = ufn("O_path", z3.StringSort(), z3.StringSort(), z3.StringSort())
    return SV(f(path.t, oid.t), TStr)


def O_def() -> SV:
    p, a = SV(z3.String("p!Od"), TStr), SV(z3.String("a!Od"), TStr)
    return SV(z3.ForAll([p.t, a.t], O(p, a).t == o2p(p, a).t, patterns=[O(p, a).t]), TBool)


def O_injective() -> SV:
    p, a, b = z3.String("p!O"), z3.String("a!O"), z3.String("b!O")
    f = ufn("O_path", z3.StringSort(), z3.StringSort(), z3.StringSort())
    return SV(z3.ForAll([p, a, b], z3.Implies(f(p, a) == f(p, b), a == b), patterns=[z3.MultiPattern(f(p, a), f(p, b))]), TBool)


def O_inv(root: SV, p: SV) -> SV:
    """the id whose object path is p in the store rooted at `root` (left inverse of O; exists because O is injective)"""
    f = ufn("O_inv", z3.StringSort(), z3.StringSort(), z3.StringSort())
    return SV(f(root.t, p.t), TStr)


def O_inv_axiom() -> SV:
    r, a = z3.String("r!Oi"), z3.String("a!Oi")
    fo = ufn("O_path", z3.StringSort(), z3.StringSort(), z3.StringSort())
    fi = ufn("O_inv", z3.StringSort(), z3.StringSort(), z3.StringSort())
    return SV(z3.ForAll([r, a], fi(r, fo(r, a)) == a, patterns=[fo(r, a)]), TBool)
