"""Value records generated from the real class definitions (fields, defaults, eq flags)."""
from pyvc.interp import rec_from_source
from pyvc.source import Repo
from pyvc.types import TAbs, TFn, TKey, TOpt, TReal

REPO = Repo()

Meta = rec_from_source(REPO, "dvc_data.hashfile.meta:Meta")
# obj_name (eq=False, hash=False) is not modelled: no code under contract reads it, and dropping it makes
# HashInfo its own canonical form, so sets of HashInfo need no projection (listed in extraction_drops)
HashInfo = rec_from_source(REPO, "dvc_data.hashfile.hash_info:HashInfo", skip=("obj_name",))
DataIndexEntry = rec_from_source(REPO, "dvc_data.index.index:DataIndexEntry", overrides={"key": TOpt(TKey)})

AnyVal = TAbs("AnyVal")  # result of an opaque comparison-key callable
MetaKeyFn = TFn(TOpt(Meta), AnyVal)

# object-level diff records (hashfile/diff.py)
TreeEntry = rec_from_source(REPO, "dvc_data.hashfile.diff:TreeEntry", overrides={"key": TKey})
Change = rec_from_source(REPO, "dvc_data.hashfile.diff:Change", overrides={"old": TreeEntry, "new": TreeEntry})
