"""Hash-state cache: records and spec functions"""
import z3

from pyvc.specfn import ufn
from pyvc.types import SV, TBool, TInt, TMap, TOpt, TReal, TRec, TRef, TStr

# stat result as produced by fs.info() (dict with a known key set; every key optional)
FileInfo = TRec(
    "FileInfo",
    fields=dict(type=TOpt(TStr), size=TOpt(TInt), mode=TOpt(TInt), ino=TOpt(TInt), mtime=TOpt(TReal), nlink=TOpt(TInt),
                islink=TOpt(TBool), destination=TOpt(TStr), etag=TOpt(TStr), checksum=TOpt(TStr), md5=TOpt(TStr), version_id=TOpt(TStr), remote=TOpt(TStr)),
)
FileInfo.dictlike = True

HashesCache = TRef("HashesCache", fields=dict(table=TMap(TStr, TStr)))
from pyvc.types import TAbs, TOMap, TTuple  # noqa: E402

# links: the table of links recorded by checkout, relative path -> (inode, mtime token), as a value (one diskcache transaction)
LinkRec = TTuple([TInt, TStr])
State = TRef("State", fields=dict(hashes=HashesCache, links=TOMap(TStr, LinkRec), root_dir=TStr, ignore=TOpt(TAbs("Ignore"))),
             qualname="dvc_data.hashfile.state:State")


def CK(ino, mtime, size):
    """validity token: str(int(tokenize([ino, mtime, size]), 16)) -- an uninterpreted function of the triple
    (tokenize is an md5 of the repr: injectivity is the collision-free assumption)"""
    f = ufn("CK", TOpt(TInt).sort(), TOpt(TReal).sort(), TOpt(TInt).sort(), z3.StringSort())
    return SV(f(ino.t, mtime.t, size.t), TStr)


def CK_info(info):
    return CK(info.ino, info.mtime, info.size)


def HT(name, path, token):
    """hash under algorithm `name` of the content the file at `path` had when its validity token was `token`
    (well defined by the physical assumption token-sound: same (ino, mtime, size) => same content)"""
    f = ufn("HT", z3.StringSort(), z3.StringSort(), z3.StringSort(), z3.StringSort())
    return SV(f(name.t, path.t, token.t), TStr)


_ht_axiom: list = []


def _unused():
    pass


# decoding of a stored row (json text) -- uninterpreted projections, tied to json_dumps by the round-trip assumption
def dec(field, sort):
    return ufn("row_" + field, z3.StringSort(), sort)

StateBase = TRef.registry.get("StateBase") or TRef("StateBase", fields={}, qualname="dvc_data.hashfile.state:StateBase")
StateNoop = TRef("StateNoop", fields={}, qualname="dvc_data.hashfile.state:StateNoop", bases=("StateBase",))
State.bases = ("StateBase",)
