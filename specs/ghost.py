"""Ghost globals (declared sorts)."""
GHOSTS = {}
from pyvc.types import TSet, TStr  # noqa: E402

# the local filesystem as seen through os.stat / os.chmod: existing paths and paths whose mode is exactly 0o444
GHOSTS["lfiles"] = TSet(TStr)
GHOSTS["l444"] = TSet(TStr)
