"""Ghost globals (declared sorts)."""
GHOSTS = {}
