"""C04 / C11 / C12(history part): dvc_data/hashfile/transfer.py"""
import z3

from pyvc import specfn
from pyvc.contracts import contract
from pyvc.types import SV, And, ForAll, Implies, Ite, Not, Or, TBool, TInt, TList, TOpt, TSeq, TSet, TStr, lift
from specs.heap import HashFileDB, ODBIndex, Tree, TreeEntry3, closed, isdir_hi, tree_hids
from specs.records import HashInfo

M = "dvc_data.hashfile.transfer"
HSet = TSet(HashInfo)
EMPTY = HSet.empty()


def objs(hv, odb):
    return hv.get("HashFileDB.objs", odb)


def entry_hids(entries):
    """{oid for _, _, oid in tree} -- the same interned spec function the code's comprehension denotes"""
    return specfn.setcomp("oid for _, _, oid in X", entries, HashInfo)


def all_h(f):
    h = HashInfo.fresh("h!q")
    return ForAll([h], f(h))


# ---------------- trees (assumed for now: bodies use json / the trie) ----------------
contract(
    "dvc_data.hashfile.tree:Tree.__iter__",
    params=dict(self=Tree),
    returns=TSeq(TreeEntry3),
    ensures=lambda c: c.result == c.h.get("Tree.entries", c.self),
    assumed=True,
    doc="iteration yields (key, meta, hash_info) triples of the listing (ghost view `entries` of _dict)",
)
contract(
    "dvc_data.hashfile.tree:Tree.__len__",
    params=dict(self=Tree),
    returns=TInt,
    ensures=lambda c: And(c.result == c.h.get("Tree.entries", c.self).length()),
    assumed=True,
    doc="len(tree) = number of listed entries (ghost view of _dict)",
)
contract(
    "dvc_data.hashfile.tree:Tree.load",
    params=dict(odb=HashFileDB, hash_info=HashInfo),
    returns=Tree,
    fresh_result=True,
    raises={"FileNotFoundError": (lambda c: Not(objs(c.h, c.odb).contains(c.hash_info)), None)},
    ensures=lambda c: And(
        objs(c.h0, c.odb).contains(c.hash_info),
        entry_hids(c.h.get("Tree.entries", c.result)) == tree_hids(c.hash_info),
        (c.h.get("Tree.entries", c.result).length() == 0) == (tree_hids(c.hash_info) == EMPTY),
        c.h.get("Tree.hash_info", c.result) == TOpt(HashInfo).some(c.hash_info),
        c.h.get("Tree.oid", c.result) == c.hash_info.value,
    ),
    assumed=True,
    doc="loading directory object d from any store that has it yields THE listing of d (WF(store) + collision-free); "
        "missing -> FileNotFoundError; corrupt objects (ObjectFormatError) excluded by WF",
)

contract(
    "ext:dvc_objects.obj.Object.__bool__",
    params=dict(self=Tree),
    returns=TBool,
    ensures=lambda c: c.result == And(c.h.get("Tree.oid", c.self).is_some, c.h.get("Tree.oid", c.self).val.length() > 0),
    assumed=True,
    pure=True,
    doc="truth value of an object = bool(self.oid) (dvc_objects.obj.Object.__bool__; it takes precedence over Tree.__len__: "
        "a loaded EMPTY directory object is truthy)",
)

# ---------------- _add ----------------
contract(
    f"{M}:_add",
    params=dict(src=HashFileDB, dest=HashFileDB, hash_infos=HSet),
    returns=HSet,
    requires=lambda c: And(c.src != c.dest, all_h(lambda h: Implies(c.hash_infos.contains(h), h.name == TOpt(TStr).some(c.h.get("HashFileDB.hash_name", c.src))))),
    modifies=lambda c: [("HashFileDB.objs", c.dest)],
    ensures=lambda c: And(
        c.result.subset(c.hash_infos),
        objs(c.h, c.dest) == objs(c.h0, c.dest).union(c.hash_infos - c.result),
    ),
    verify=False,
    assumed=True,
    bounded=("bounded/transfer_faults.py", 60, 900),
    props=["C04", "C11", "C07"],
    doc="[to be verified against ObjectDB.add] every requested object is placed in dest or returned as failed; nothing else changes",
)


# ---------------- _do_transfer ----------------
def _pre(c):
    src_objs, dest_objs = objs(c.h, c.src), objs(c.h, c.dest)
    name = TOpt(TStr).some(c.h.get("HashFileDB.hash_name", c.src))
    Q = c.obj_ids.union(c.missing_ids).union(dest_objs)
    return And(
        c.src != c.dest,
        Implies(c.cache_odb.is_some, And(c.cache_odb.val != c.dest)),
        all_h(lambda h: Implies(c.obj_ids.contains(h), And(h.name == name, h.value.is_some, h.value.val.length() > 0))),
        c.obj_ids.subset(src_objs),                      # new: present in the source ...
        c.obj_ids.inter(dest_objs) == EMPTY,             # ... and absent from the destination
        c.missing_ids.inter(dest_objs) == EMPTY,
        c.missing_ids.inter(c.obj_ids) == EMPTY,
        # closed request: every requested directory is listed with its files (each file is new, ok/deleted, or missing)
        all_h(lambda d: Implies(And(c.obj_ids.contains(d), isdir_hi(d)), tree_hids(d).subset(Q))),
        # directory listings list files only
        all_h(lambda d: all_h2(lambda e: Implies(tree_hids(d).contains(e), Not(isdir_hi(e))))),
        closed(dest_objs),
    )


def all_h2(f):
    h = HashInfo.fresh("e!q")
    return ForAll([h], f(h))


def dirs_of(S):
    """the directory ids of S (spec set; characterised by dirs_axiom)"""
    f = specfn.ufn("dirs_of", HSet.sort(), HSet.sort())
    return SV(f(S.t), HSet)


def dirs_axiom(S):
    h = HashInfo.fresh("h!d")
    D = dirs_of(S)
    return SV(z3.ForAll([h.t], D.contains(h).t == z3.And(S.contains(h).t, isdir_hi(h).t), patterns=[D.contains(h).t, S.contains(h).t]), TBool)


def _loop0_inv(c):  # partition of obj_ids into dir_ids / file_ids
    V, D = c.visited, dirs_of(c.obj_ids)
    return And(
        c.loc.dir_ids.union(c.loc.file_ids) == V,
        c.loc.dir_ids.subset(D), c.loc.file_ids.inter(D) == EMPTY,
        objs(c.h, c.dest) == objs(c.h0, c.dest),
    )


def _common_inv(c, failed, file_ids, dir_ids):
    d0, d1 = objs(c.h0, c.dest), objs(c.h, c.dest)
    D = dirs_of(c.obj_ids)
    F0 = c.obj_ids - D
    return And(
        closed(d1),
        d0.subset(d1),
        d1.subset(d0.union(c.obj_ids)),
        failed.subset(c.obj_ids),
        dir_ids == D,
        file_ids.subset(F0),
        # every requested file is still pending, delivered, or recorded as failed
        F0.subset(file_ids.union(d1).union(failed)),
        objs(c.h, c.src) == objs(c.h0, c.src),
        c.h.get("HashFileDB.hash_name", c.src) == c.h0.get("HashFileDB.hash_name", c.src),
    )


def _dir_done(c, d, failed):
    d1 = objs(c.h, c.dest)
    return Or(d1.contains(d), failed.contains(d))


def _succ_ok(c):
    """every tree recorded as fully pushed carries its (truthy) id"""
    i = TInt.fresh("i!s")
    sq = c.loc.succeeded_dir_objs
    hi = c.h.get("Tree.hash_info", sq[i])
    return ForAll([i], Implies(And(i >= 0, i < sq.length()), And(hi.is_some, hi.val.value.is_some, hi.val.value.val.length() > 0)))


def _loop1_inv(c):
    V = c.visited
    return And(
        _common_inv(c, c.loc.failed_ids, c.loc.file_ids, c.loc.dir_ids),
        all_h(lambda d: Implies(V.contains(d), _dir_done(c, d, c.loc.failed_ids))),
        # a directory not yet visited has not been uploaded
        (c.loc.dir_ids - V).inter(objs(c.h, c.dest)) == EMPTY,
        _succ_ok(c),
    )


def _loop2_inv(c):  # indexing of fully pushed directories: the stores are not touched any more
    return And(_common_inv(c, c.loc.failed_ids, c.loc.file_ids, c.loc.dir_ids), c.loc.failed_ids == EMPTY, _succ_ok(c),
               all_h(lambda d: Implies(c.loc.dir_ids.contains(d), _dir_done(c, d, c.loc.failed_ids))))


def _post(c):
    d0, d1 = objs(c.h0, c.dest), objs(c.h, c.dest)
    return And(
        closed(d1),                       # C04
        d0.subset(d1), d1.subset(d0.union(c.obj_ids)),
        c.result.subset(c.obj_ids),       # C11: failed is a subset of what was new
        # C11: every object reported as transferred (new - failed) is present in the destination afterwards;
        # equivalently: everything requested that is absent afterwards is reported as failed
        (c.obj_ids - c.result).subset(d1),
        objs(c.h, c.src) == objs(c.h0, c.src),   # C11: the source is not modified
    )


contract(
    f"{M}:_do_transfer",
    params=dict(src=HashFileDB, dest=HashFileDB, obj_ids=HSet, missing_ids=HSet, src_index=TOpt(ODBIndex), dest_index=TOpt(ODBIndex),
                cache_odb=TOpt(HashFileDB)),
    returns=HSet,
    requires=_pre,
    entry_assume=lambda c: dirs_axiom(c.obj_ids),  # definition of the spec set dirs_of(obj_ids)
    assumes=['dirs_of(S), used in the invariants, is by definition the set of directory ids of S'],
    modifies=lambda c: [("HashFileDB.objs", c.dest), ("ObjectDBIndexBase.held", None), ("ObjectDBIndexBase.dirs", None)],
    locals=dict(dir_ids=HSet, file_ids=HSet, failed_ids=HSet, succeeded_dir_objs=TList(Tree)),
    invariants={0: _loop0_inv, 1: _loop1_inv, 2: _loop2_inv},
    ensures=_post,
    crash=lambda c: closed(objs(c.h, c.dest)),
    props=["C04", "C11", "C18", "C12", "C15"],
    doc="C04: Closed(dest) after every mutating call and at return; C11: truthful failed set",
)

# ---------------- remote index (thin wrappers over diskcache: assumed for now) ----------------
SSet = TSet(TOpt(TStr))
contract("ext:ObjectDBIndexBase.clear", params=dict(self=ODBIndex),
         modifies=lambda c: [("ObjectDBIndexBase.held", c.self), ("ObjectDBIndexBase.dirs", c.self)],
         ensures=lambda c: And(c.h.get("ObjectDBIndexBase.held", c.self) == SSet.empty(), c.h.get("ObjectDBIndexBase.dirs", c.self) == SSet.empty()),
         assumed=True, doc="index.clear(): empties the index")
contract("ext:ObjectDBIndexBase.update", params=dict(self=ODBIndex, dir_hashes=SSet, file_hashes=SSet),
         modifies=lambda c: [("ObjectDBIndexBase.held", c.self), ("ObjectDBIndexBase.dirs", c.self)],
         ensures=lambda c: And(
             c.h.get("ObjectDBIndexBase.held", c.self) == c.h0.get("ObjectDBIndexBase.held", c.self).union(c.dir_hashes).union(c.file_hashes),
             c.h.get("ObjectDBIndexBase.dirs", c.self) == (c.h0.get("ObjectDBIndexBase.dirs", c.self) - c.file_hashes).union(c.dir_hashes)),
         assumed=True, doc="index.update(dirs, files): adds both, marking the first as directories")


# ---------------- native replay: scenario suite run against the same tree ----------------
def _native_scenarios(repo, con, fdef, ob, model):
    import json
    import os
    import subprocess
    import sys

    here = os.path.dirname(os.path.dirname(os.path.abspath(__file__)))
    env = dict(os.environ, PYVC_REPO_SRC=repo.src, SCEN_SEEDS="2")
    out = {"kind": "native scenario suite (replay/transfer_scenarios.py): fault injection on real stores", "reproduced": False}
    try:
        p = subprocess.run(["/venv/bin/python", os.path.join(here, "replay", "transfer_scenarios.py")], capture_output=True, text=True, env=env, timeout=300)
        reps = json.loads(p.stdout)
        bad = [r for r in reps if r.get("violates_C04") or r.get("violates_C11")]
        out["scenarios_run"] = len(reps)
        out["failing"] = bad[:3]
        out["reproduced"] = bool(bad)
        if bad:
            out["signature"] = bad[0]["name"]
    except Exception as e:  # noqa: BLE001
        out["detail"] = "scenario suite could not run: " + repr(e)
    return out


from pyvc.contracts import REG  # noqa: E402

REG.get(f"{M}:_do_transfer").replay = _native_scenarios
