"""C09: index checkout (compare + apply).  The convergence clause is covered by a bounded stand-in only (labelled);
no deductive contract is in place yet for _compare / apply."""
from pyvc.contracts import contract

contract(
    "dvc_data.index.checkout:apply",
    verify=False,
    bounded=("bounded/index_checkout.py", 150, 2000),
    props=["C09"],
    doc="compare(old, new, delete) + apply leaves exactly the target; a second compare finds nothing to do (bounded run-time check)",
)
