"""C12: status / compare_status — dvc_data/hashfile/status.py"""
import z3

import contracts.transfer  # noqa: F401
from pyvc import specfn
from pyvc.contracts import contract
from pyvc.types import SV, And, Implies, Ite, Not, Or, TBool, TInt, TOpt, TRec, TSet, TStr, lift
from specs.heap import HashFileDB, ODBIndex
from specs.records import HashInfo

M = "dvc_data.hashfile.status"
HSet = TSet(HashInfo)
E = HSet.empty()
StatusResult = TRec("StatusResult", fields=dict(exists=HSet, missing=HSet), qualname=f"{M}:StatusResult")
CompareStatusResult = TRec("CompareStatusResult", fields=dict(ok=HSet, missing=HSet, new=HSet, deleted=HSet), qualname=f"{M}:CompareStatusResult")


StatusResult.tuple_like = True
CompareStatusResult.tuple_like = True


def objs(hv, odb):
    return hv.get("HashFileDB.objs", odb)


def Q(obj_ids, shallow):
    """the queried ids: the requested ones plus, when directories are expanded, the files they list"""
    f = specfn.ufn("status_query", HSet.sort(), z3.BoolSort(), HSet.sort())
    return SV(f(obj_ids.t, lift(shallow, TBool).t), HSet)


def _is_mem(c, odb):
    return c.h.get("FileSystem.protocol", c.h.get("HashFileDB.fs", odb)) == "memory"


def _status_post(c):
    q = Q(c.obj_ids, c.shallow)
    ex, mi = c.result.exists, c.result.missing
    present = q.inter(objs(c.h0, c.odb))
    return And(
        ex.union(mi) == q, ex.inter(mi) == E,
        c.obj_ids.subset(q),
        # without an index the answer agrees with the store's actual contents (staged memory objects are taken as present)
        Implies(And(c.index.is_none, Not(_is_mem(c, c.odb))), ex == present),
        Implies(_is_mem(c, c.odb), ex == q),
        objs(c.h, c.odb) == objs(c.h0, c.odb),
    )


contract(
    f"{M}:status",
    params=dict(odb=HashFileDB, obj_ids=HSet, name=TOpt(TStr), index=TOpt(ODBIndex), cache_odb=TOpt(HashFileDB), shallow=TBool, jobs=TOpt(TInt)),
    returns=StatusResult,
    modifies=lambda c: [("ObjectDBIndexBase.held", None), ("ObjectDBIndexBase.dirs", None)],
    ensures=_status_post,
    verify=False,
    assumed=True,
    bounded=("bounded/status_index.py", 400, 5000),
    props=["C12", "C11"],
    doc="[body to be verified] exists/missing partition the queried ids; with no index it is exact w.r.t. the store "
        "(for a local store: after the integrity filtering of C07 -- objs is the set of objects that pass it)",
)


def _cs_post(c):
    sh = c.kwargs.items["shallow"][1] if "shallow" in c.kwargs.items else lift(True)
    q = Q(c.obj_ids, sh)
    r = c.result
    s, d = objs(c.h0, c.src), objs(c.h0, c.dest)
    noidx = And(c.src_index.is_none, c.dest_index.is_none, Not(_is_mem(c, c.src)), Not(_is_mem(c, c.dest)))
    return And(
        # a four-way partition of the queried ids
        r.ok.union(r.missing).union(r.new).union(r.deleted) == q,
        r.ok.inter(r.missing) == E, r.ok.inter(r.new) == E, r.ok.inter(r.deleted) == E,
        r.missing.inter(r.new) == E, r.missing.inter(r.deleted) == E, r.new.inter(r.deleted) == E,
        # consistent with the stores' contents when no index is involved
        Implies(noidx, And(r.new == q.inter(s) - d, r.missing == (q - s) - d, r.ok.union(r.deleted) == q.inter(d))),
        Implies(And(noidx, c.check_deleted), And(r.ok == q.inter(s).inter(d), r.deleted == q.inter(d) - s)),
    )


contract(
    f"{M}:compare_status",
    params=dict(src=HashFileDB, dest=HashFileDB, obj_ids=HSet, check_deleted=TBool, src_index=TOpt(ODBIndex), dest_index=TOpt(ODBIndex),
                cache_odb=TOpt(HashFileDB), jobs=TOpt(TInt), kwargs={"shallow": TBool}),
    returns=CompareStatusResult,
    modifies=lambda c: [("ObjectDBIndexBase.held", None), ("ObjectDBIndexBase.dirs", None)],
    ensures=_cs_post,
    props=["C12", "C11"],
    doc="ok / new / deleted / missing partition the queried ids consistently with the two individual answers",
)


# ---------------- transfer(): the result tells the truth (C11) ----------------
from contracts.transfer import _pre as _dt_pre, all_h  # noqa: E402
from pyvc.types import TFn  # noqa: E402
from specs.heap import Callback, closed, isdir_hi, tree_hids  # noqa: E402

T = "dvc_data.hashfile.transfer"
TransferResult = TRec("TransferResult", fields=dict(transferred=HSet, failed=HSet), qualname=f"{T}:TransferResult")
TransferResult.tuple_like = True
Validate = TOpt(TFn(CompareStatusResult, TBool))


def _tr_pre(c):
    q = Q(c.obj_ids, c.shallow)
    name = TOpt(TStr).some(c.h.get("HashFileDB.hash_name", c.src))
    return And(
        c.src_index.is_none, c.dest_index.is_none,          # the index-free case (the index is C12's history clause)
        Not(_is_mem(c, c.src)), Not(_is_mem(c, c.dest)),
        Implies(c.cache_odb.is_some, c.cache_odb.val != c.dest),
        all_h(lambda h: Implies(q.contains(h), And(h.name == name, h.value.is_some, h.value.val.length() > 0))),
        # closed request: every queried directory is queried together with the files it lists; listings list files only and are non-empty
        all_h(lambda d: Implies(And(q.contains(d), isdir_hi(d)), And(tree_hids(d).subset(q), Not(tree_hids(d) == E)))),
        all_h(lambda d: all_h(lambda e: Implies(tree_hids(d).contains(e), Not(isdir_hi(e))))),
        closed(objs(c.h, c.dest)),
    )


def _tr_post(c):
    q = Q(c.obj_ids, c.shallow)
    s0, d0, d1 = objs(c.h0, c.src), objs(c.h0, c.dest), objs(c.h, c.dest)
    new = q.inter(s0) - d0
    r = c.result
    same = c.src == c.dest
    return Implies(Not(same), And(
        r.transferred.union(r.failed) == new, r.transferred.inter(r.failed) == E,   # partition of what was new to the destination
        r.transferred.subset(d1),                                                   # transferred => present afterwards
        (q - d1).subset(r.failed.union((q - s0) - d0)),                             # absent afterwards => failed, or missing on both sides
        d0.subset(d1), d1.subset(d0.union(new)),                                    # nothing already present is touched; nothing else is sent
        objs(c.h, c.src) == s0,                                                     # the source is not modified
        closed(d1),
    ))


contract(
    f"{T}:transfer",
    params=dict(src=HashFileDB, dest=HashFileDB, obj_ids=HSet, jobs=TOpt(TInt), verify=TBool, hardlink=TBool, validate_status=None,
                src_index=TOpt(ODBIndex), dest_index=TOpt(ODBIndex), cache_odb=TOpt(HashFileDB), shallow=TBool, callback=Callback),
    returns=TransferResult,
    requires=_tr_pre,
    modifies=lambda c: [("HashFileDB.objs", c.dest), ("ObjectDBIndexBase.held", None), ("ObjectDBIndexBase.dirs", None)],
    ensures=_tr_post,
    props=["C11", "C04", "C18"],
    doc="result = (new - failed, failed); truthful w.r.t. the destination; the source is never modified",
)
