"""C13 / C01: index md5() re-validation -- dvc_data/index/save.py:_meta_matches
('md5() re-hashes unless the stored checksum is confirmed by the filesystem')"""
import z3

import contracts.store_check  # noqa: F401  (fs.info refinements)
from contracts.state import META_TEXT_FIELDS, alg_name, meta_of, now_info
from pyvc.contracts import contract
from pyvc.types import SV, And, Implies, Ite, Not, Or, TBool, TOpt, TStr, lift
from specs.heap import FileSystem
from specs.records import Meta

OStr = TOpt(TStr)
OBool = TOpt(TBool)


def _text_field(m, name):
    """getattr(m, name, None) for a name that is (by the precondition) not the name of a non-text field"""
    r = OStr.none()
    for f in META_TEXT_FIELDS:
        r = Ite(name == f, getattr(m, f), r)
    return r


def _truthy(v):
    return And(v.is_some, v.val.length() > 0)


def _mm_post(c):
    ck = c.h.get("FileSystem.PARAM_CHECKSUM", c.fs)
    new_meta = meta_of(now_info(c.fs, c.path), OStr.some(c.h.get("FileSystem.protocol", c.fs)))
    old = Ite(c.old_meta.is_some, _text_field(c.old_meta.val, ck), OStr.none())
    new = _text_field(new_meta, ck)
    imm = c.h.get("FileSystem.immutable", c.fs)
    vanished = Implies(c.h.get("FileSystem.is_local", c.fs), Not(c.h.G("lfiles").contains(c.path)))
    confirmed = And(_truthy(old), _truthy(new), old == new)
    return And(
        # "confirmed" is answered only for an immutable filesystem or when BOTH the recorded and the current checksum exist and agree;
        # when either is missing the answer is "cannot tell" (None): the caller has to hash
        Implies(c.result == OBool.some(True), Or(imm, confirmed)),
        # (a file that is not there any more is answered False; for a local filesystem that is decided by the ghost file set)
        Implies(And(Not(imm), Or(Not(_truthy(old)), Not(_truthy(new)))), Or(c.result.is_none, And(c.result == OBool.some(False), vanished))),
        Implies(And(Not(imm), _truthy(old), _truthy(new)), Or(c.result == OBool.some(old == new), And(c.result == OBool.some(False), vanished))),
    )


contract(
    "dvc_data.index.save:_meta_matches",
    params=dict(fs=FileSystem, path=TStr, old_meta=TOpt(Meta)),
    returns=OBool,
    requires=lambda c: alg_name(c.h.get("FileSystem.PARAM_CHECKSUM", c.fs)),
    modifies=lambda c: [],
    ensures=_mm_post,
    props=["C13", "C01"],
    doc="the recorded checksum counts as confirmed only if the filesystem is immutable or both the recorded and the current "
        "filesystem checksum exist and are equal; if either is missing the answer is None (the caller re-hashes); a vanished file is False",
)


# ---------------- md5() ----------------
from contracts.state import _state_inv_of  # noqa: E402
from pyvc import specfn  # noqa: E402
from pyvc.types import ForAll, TInt, TKey, TList, TMap, TRef, TTuple  # noqa: E402
from specs.records import DataIndexEntry, HashInfo  # noqa: E402
from specs.state import CK_info, HT, StateBase  # noqa: E402

StorageMapping = TRef("StorageMapping", fields={}, qualname="dvc_data.index.index:StorageMapping")
Pair = TTuple([TKey, DataIndexEntry])
DataIndex = TRef("DataIndex", fields=dict(storage_map=StorageMapping,
                                          # ghost: the entries as a finite map, and the sequence iteritems() yields
                                          entries=TMap(TKey, DataIndexEntry), items=TList(Pair)),
                 qualname="dvc_data.index.index:DataIndex")


def s_fs(smap, key, typ):
    f = specfn.ufn("storage_fs", z3.IntSort(), TKey.sort(), z3.StringSort(), z3.IntSort())
    return SV(f(smap.t, key.t, typ.t), FileSystem)


def s_path(smap, key, typ):
    f = specfn.ufn("storage_path", z3.IntSort(), TKey.sort(), z3.StringSort(), z3.StringSort())
    return SV(f(smap.t, key.t, typ.t), TStr)


contract("dvc_data.index.index:DataIndex.__init__", params=dict(self=DataIndex),
         modifies=lambda c: [("DataIndex.entries", c.self), ("DataIndex.items", c.self), ("DataIndex.storage_map", c.self)],
         ensures=lambda c: c.h.get("DataIndex.entries", c.self) == TMap(TKey, DataIndexEntry).empty(),
         assumed=True, verify=False, doc="DataIndex(): an empty index")
contract("dvc_data.index.index:DataIndex.iteritems", params=dict(self=DataIndex), returns=TList(Pair),
         ensures=lambda c: And(c.result == c.h.get("DataIndex.items", c.self),
                               _all_i(c.result.length(), lambda i: c.result[i][1].key == TOpt(TKey).some(c.result[i][0]))),
         assumed=True, verify=False, doc="iteritems(): (key, entry) pairs; an entry carries its own key")
contract("dvc_data.index.index:BaseDataIndex.add", params=dict(self=DataIndex, entry=DataIndexEntry),
         requires=lambda c: c.entry.key.is_some,
         modifies=lambda c: [("DataIndex.entries", c.self)],
         ensures=lambda c: c.h.get("DataIndex.entries", c.self) == _store(c.h0.get("DataIndex.entries", c.self), c.entry.key.val, c.entry),
         assumed=True, verify=False, doc="index.add(entry): index[entry.key] = entry (finite map update)")
contract("dvc_data.index.index:StorageMapping.get_storage", params=dict(self=StorageMapping, entry=DataIndexEntry, typ=TStr),
         returns=TTuple([FileSystem, TStr]),
         requires=lambda c: c.entry.key.is_some,
         raises={"ValueError": (None, None)},
         ensures=lambda c: And(c.result[0] == s_fs(c.self, c.entry.key.val, c.typ), c.result[1] == s_path(c.self, c.entry.key.val, c.typ),
                               alg_name(c.h.get("FileSystem.PARAM_CHECKSUM", c.result[0]))),
         assumed=True, verify=False,
         doc="storage_map.get_storage(entry, typ): where the data of the entry's KEY lives for that storage kind (file storages address by key); "
             "the checksum field name of a filesystem is an algorithm name")


def _store(m, k, v):
    from pyvc.types import canon
    ty = m.ty
    k = canon(k)
    return ty.mk(z3.SetAdd(ty.dom(m).t, k.t), z3.Store(ty.arr(m), k.t, v.t))


def _all_i(n, f):
    i = TInt.fresh("i!m5")
    return ForAll([i], Implies(And(i >= 0, i < n), f(i)))


def _good(c, e, ret_h):
    """an entry of the result is a directory, or is vouched for by the filesystem's own checksum, or carries the hash of the file's
    CURRENT bytes under the requested algorithm"""
    smap = c.h0.get("DataIndex.storage_map", c.index)
    fs, path = s_fs(smap, e.key.val, c.storage), s_path(smap, e.key.val, c.storage)
    ck = c.h0.get("FileSystem.PARAM_CHECKSUM", fs)
    new_meta = meta_of(now_info(fs, path), OStr.some(c.h0.get("FileSystem.protocol", fs)))
    old = Ite(e.meta.is_some, _text_field(e.meta.val, ck), OStr.none())
    new = _text_field(new_meta, ck)
    trusted = Or(c.h0.get("FileSystem.immutable", fs), And(_truthy(old), _truthy(new), old == new))
    cur = HT(c.name, path, CK_info(now_info(fs, path)))
    hashed = And(e.hash_info.is_some, e.hash_info.val.name == OStr.some(c.name), e.hash_info.val.value == OStr.some(cur))
    return Or(And(e.meta.is_some, e.meta.val.isdir), trusted, hashed)


def _ret_good(c, ret):
    k = SV(z3.Const("k!m5", TKey.sort()), TKey)
    m = c.h.get("DataIndex.entries", ret)
    return SV(z3.ForAll([k.t], z3.Implies(m.contains(k).t, z3.And(m[k].key.t == TOpt(TKey).some(k).t, _good(c, m[k], c.h).t))), TBool)


contract(
    "dvc_data.index.save:md5",
    params=dict(index=DataIndex, state=TOpt(StateBase), storage=TStr, name=TStr),
    returns=DataIndex,
    requires=lambda c: And(alg_name(c.name), Implies(c.state.is_some, _state_inv_of(c.h, c.state.val))),
    raises={"NotImplementedError": (None, None)},
    modifies=lambda c: [("HashesCache.table", None), ("DataIndex.entries", None), ("DataIndex.items", None), ("DataIndex.storage_map", None)],
    locals=dict(ret=DataIndex),
    invariants={0: lambda c: And(_ret_good(c, c.loc.ret), c.loc.ret != c.index,
                                 Implies(c.state.is_some, _state_inv_of(c.h, c.state.val)))},
    ensures=lambda c: _ret_good(c, c.result),
    props=["C13", "C01"],
    doc="every file entry of md5(index) either is confirmed by the filesystem's own checksum or carries the hash of the file's current "
        "bytes under the requested algorithm -- a recorded hash that no longer matches never survives re-validation",
)
