"""dvc_data/fsutils.py: the library's own local stat helper -- the source of the 'freshly read stat information' that staging,
check() and checkout hand to the hash-state cache (C13; also behind C05/C10's link records)."""
import z3

from pyvc import specfn
from pyvc.contracts import contract, harness
from pyvc.types import SV, And, Implies, Ite, Not, lift, TBool, TInt, TOpt, TReal, TRec, TStr
from specs.state import FileInfo

StatResult = TRec("StatResult", fields=dict(st_mode=TInt, st_size=TInt, st_ino=TInt, st_mtime=TReal, st_nlink=TInt, st_ctime=TReal, st_uid=TInt, st_gid=TInt))


def statf(path, follow):
    """what the operating system reports for `path` (link followed or not) at the time of the call"""
    f = specfn.ufn("os_stat", z3.StringSort(), z3.BoolSort(), StatResult.sort())
    return SV(f(path.t, follow.t if isinstance(follow, SV) else z3.BoolVal(bool(follow))), StatResult)


def _is(kind, mode):
    f = specfn.ufn("S_IS" + kind, z3.IntSort(), z3.BoolSort())
    return SV(f(mode.t), TBool)


contract(
    "ext:os.stat",
    params=dict(path=TStr, follow_symlinks=TBool),
    returns=StatResult,
    raises={"FileNotFoundError": (None, None), "OSError": (None, None)},
    # POSIX: for a path that is not a symbolic link, lstat and stat report the same thing
    ensures=lambda c: And(c.result == statf(c.path, c.follow_symlinks),
                          Implies(Not(_is("LNK", statf(c.path, False).st_mode)), statf(c.path, False) == statf(c.path, True))),
    assumed=True,
    doc="os.stat(path, follow_symlinks=b): one reading of the file system, no effect; lstat == stat for a path that is not a symbolic link",
)
for _k in ("LNK", "DIR", "REG"):
    contract(f"ext:stat.S_IS{_k}", params=dict(mode=TInt), returns=TBool, ensures=(lambda k: lambda c: c.result == _is(k, c.mode))(_k),
             assumed=True, doc=f"stat.S_IS{_k}: a function of the mode bits")
contract("ext:os.readlink", params=dict(path=TStr), returns=TStr, raises={"OSError": (None, None)}, assumed=True, doc="os.readlink: reads, no effect")


def _post(c):
    F = statf(c.path, True)  # the file the path resolves to
    r = c.result
    return And(
        # the fields the validity token is made of -- (inode, mtime, size) -- and the link count describe the file the path RESOLVES to
        r.size == TOpt(TInt).some(F.st_size),
        r.mtime == TOpt(TReal).some(F.st_mtime),
        r.ino == TOpt(TInt).some(F.st_ino),
        r.nlink == TOpt(TInt).some(F.st_nlink),
        r.mode == TOpt(TInt).some(F.st_mode),
        r.islink == TOpt(TBool).some(_is("LNK", statf(c.path, False).st_mode)),
        r.type == TOpt(TStr).some(Ite(_is("DIR", F.st_mode), lift("directory"), Ite(_is("REG", F.st_mode), lift("file"), lift("other")))),
    )


harness(
    "dvc_data.fsutils", "localfs_info_follows_links",
    "def h(path):\n    return _localfs_info(path)\n",
    params=dict(path=TStr),
    returns=FileInfo,
    raises={"FileNotFoundError": (None, None), "OSError": (None, None)},
    modifies=lambda c: [],
    ensures=_post,
    inline=["dvc_data.fsutils:_localfs_info"],
    props=["C13", "C05", "C10", "C01", "C02", "C03"],  # every property whose staging walk / checkout reads stat information through it
    doc="_localfs_info(path): size, mtime, inode, link count, mode and type are those of the file the path resolves to (a symbolic "
        "link is followed); 'islink' tells whether the path itself is a link; nothing is modified.  (A lemma over the real body: "
        "callers use the ghost-state contract of the same function in store_check.py, which this lemma does not replace.)",
)


# ---------------- pure path functions of os.path used next to the stat helper ----------------
def _upath(name, *sorts):
    return specfn.ufn("os_path_" + name, *sorts)


contract("ext:os.path.realpath", params=dict(path=TStr), returns=TStr,
         ensures=lambda c: c.result == SV(_upath("realpath", z3.StringSort(), z3.StringSort())(c.path.t), TStr), assumed=True,
         doc="os.path.realpath(path): reads the file system (resolves symbolic links), no effect; the result need not equal the path")
contract("ext:os.path.isabs", params=dict(s=TStr), returns=TBool,
         ensures=lambda c: c.result == SV(z3.PrefixOf(z3.StringVal("/"), c.s.t), TBool), assumed=True, doc="os.path.isabs on POSIX: starts with '/'")
