"""C13: hash-state cache — dvc_data/hashfile/state.py, hash.py"""
import z3

from pyvc.contracts import contract
from pyvc.engine import PairList, SDict
from pyvc.interp import extern
from pyvc.state import RaiseEx
from pyvc.types import SV, And, Implies, Ite, Not, Or, TBool, TInt, TOpt, TReal, TStr, TTuple, lift
from specs.heap import Callback, FileSystem
from specs.records import HashInfo, Meta
from specs.state import CK, CK_info, HT, FileInfo, HashesCache, State, dec

M = "dvc_data.hashfile.state"
OStr, OInt = TOpt(TStr), TOpt(TInt)


# ---------------- assumed: tokenize, json, the table ----------------
@extern("ext:fsspec.utils.tokenize")
def _tokenize(engine, args, kwargs, node, self_expr):
    (lst,) = args
    if not (isinstance(lst, list) and len(lst) == 3):
        # any other argument shape: an unconstrained token (nothing is known about it, so whatever the contract of the caller
        # says about the validity token has to fail rather than go undecided)
        return ("__token__", TStr.fresh("token_of_other_shape"))
    engine.res.assumed_used.add("tokenize([ino, mtime, size]) is a function of the triple, injective (md5 of the repr: collision-free)")
    ino, mtime, size = lst
    return ("__token__", CK(lift(ino, OInt) if not isinstance(ino, SV) or ino.ty != OInt else ino,
                            _as_oreal(mtime), lift(size, OInt) if not isinstance(size, SV) or size.ty != OInt else size))


def _as_oreal(v):
    o = TOpt(TReal)
    if isinstance(v, SV) and v.ty == o:
        return v
    if isinstance(v, SV) and v.ty == TInt:
        return o.some(lift(v, TReal))
    return lift(v, o)


# int(tok, 16) and str(...) of the token: the composite is what CK denotes
import pyvc.builtins_ as _b  # noqa: E402

_orig_int, _orig_str = _b.BuiltinMixin.bi_int, _b.BuiltinMixin.bi_str


def _bi_int(self, args, kwargs, node):
    if isinstance(args[0], tuple) and args[0] and args[0][0] == "__token__":
        return args[0]
    if isinstance(args[0], SV) and args[0].ty == TReal:
        return SV(z3.ToInt(args[0].t), TInt)  # exact for non-negative values (mtime)
    if isinstance(args[0], SV) and isinstance(args[0].ty, TOpt) and args[0].ty.elem == TReal:
        v = args[0]
        self.oblige("attr", v.ty.is_some(v), node, "int(None)")
        self.assume(v.ty.is_some(v))
        return SV(z3.ToInt(v.ty.val(v).t), TInt)
    return _orig_int(self, args, kwargs, node)


def _bi_str(self, args, kwargs, node):
    if args and isinstance(args[0], tuple) and args[0] and args[0][0] == "__token__":
        return args[0][1]
    return _orig_str(self, args, kwargs, node)


_b.BuiltinMixin.bi_int, _b.BuiltinMixin.bi_str = _bi_int, _bi_str


@extern("ext:dvc_data.json_compat.loads")
def _json_loads(engine, args, kwargs, node, self_expr):
    """rows are json objects written by save*/save_many (well-formed: version?, checksum, size, hash_info) or garbage (ValueError)"""
    raw = lift(args[0], TStr)
    engine.res.assumed_used.add("json: loads(dumps(x)) = x; a stored row decodes to {version?, checksum, size, hash_info:{name: value}?} or raises ValueError")
    ok = SV(dec("ok", z3.BoolSort())(raw.t), TBool)
    if not engine.branch(ok):
        raise RaiseEx("ValueError", None, node)
    hv = SV(dec("has_version", z3.BoolSort())(raw.t), TBool)
    hh = SV(dec("has_hash", z3.BoolSort())(raw.t), TBool)
    d = SDict({
        "checksum": (z3.BoolVal(True), SV(dec("checksum", z3.StringSort())(raw.t), TStr)),
        "size": (z3.BoolVal(True), SV(dec("size", z3.IntSort())(raw.t), TInt)),
        "version": (hv.t, SV(dec("version", z3.IntSort())(raw.t), TInt)),
    })
    if engine.branch(hh):
        d.items["hash_info"] = (z3.BoolVal(True), PairList([(SV(dec("hname", z3.StringSort())(raw.t), TStr), SV(dec("hvalue", z3.StringSort())(raw.t), TStr))]))
    else:
        d.items["hash_info"] = (z3.BoolVal(True), SDict())
    return d


contract("ext:HashesCache.get", params=dict(self=HashesCache, key=TStr), returns=OStr,
         ensures=lambda c: c.result == Ite(c.h.get("HashesCache.table", c.self).contains(c.key), OStr.some(c.h.get("HashesCache.table", c.self)[c.key]), OStr.none()),
         assumed=True, doc="hashes table lookup (sqlite row by key)")

contract(
    "dvc_data.hashfile.meta:Meta.from_info",
    params=dict(info=FileInfo, protocol=OStr),
    returns=Meta,
    ensures=lambda c: And(c.result.size == c.info.size, c.result.inode == c.info.ino, c.result.mtime == c.info.mtime,
                          c.result.isdir == And(c.info.type.is_some, c.info.type.val == "directory"),
                          SV(c.result.t == meta_of(c.info, c.protocol).t, TBool)),  # structural (all fields, not attrs' eq subset)
    assumed=True,
    doc="[to be verified] Meta.from_info copies size / ino / mtime and the kind from the stat result; it is a function of (info, protocol)",
)
contract("ext:FileSystem.info", params=dict(self=FileSystem, path=TStr), returns=FileInfo,
         raises={"FileNotFoundError": (None, None)},
         ensures=lambda c: And(c.result == now_info(c.self, c.path), c.result.size.is_some, c.result.ino.is_some, c.result.mtime.is_some),
         assumed=True, doc="fs.info(path): the current stat of the file (a function of the unchanging filesystem state within one call)")


def meta_of(info, protocol):
    from pyvc.specfn import ufn

    f = ufn("meta_of_info", FileInfo.sort(), OStr.sort(), Meta.sort())
    return SV(f(info.t, protocol.t), Meta)


def now_info(fs, path):
    from pyvc.specfn import ufn

    f = ufn("now_info", z3.IntSort(), z3.StringSort(), FileInfo.sort())
    return SV(f(fs.t, path.t), FileInfo)


# ---------------- _checksum ----------------
contract(
    f"{M}:_checksum",
    params=dict(info=FileInfo),
    returns=TStr,
    raises={"KeyError": (lambda c: Or(c.info.ino.is_none, c.info.mtime.is_none, c.info.size.is_none), None)},
    ensures=lambda c: c.result == CK_info(c.info),
    props=["C13", "C07", "C01", "C02", "C03", "C05", "C10"],
    doc="validity token = function of exactly (inode, mtime, size) of the stat result",
)


# ---------------- State._get ----------------
def row(raw, f, sort, ty):
    return SV(dec(f, sort)(raw.t), ty)


def _get_post(c):
    raw = c.raw
    hit = c.result.is_some
    hv = row(raw, "has_version", z3.BoolSort(), TBool)
    ver = row(raw, "version", z3.IntSort(), TInt)
    hname, hvalue = row(raw, "hname", z3.StringSort(), TStr), row(raw, "hvalue", z3.StringSort(), TStr)
    hh = row(raw, "has_hash", z3.BoolSort(), TBool)
    hi = c.result.val[1]
    legacy = And(Not(hv), hname == "md5")
    return Implies(hit, And(
        row(raw, "ok", z3.BoolSort(), TBool),
        row(raw, "checksum", z3.StringSort(), TStr) == CK_info(c.info),       # token matches the stat in force
        Or(Not(hv), ver <= 1),                                                # not written by a newer format
        Implies(hh, And(hi.value == OStr.some(hvalue), hi.name == OStr.some(Ite(legacy, lift("md5-dos2unix"), hname)))),
        Implies(Not(hh), And(hi.value.is_none, hi.name.is_none)),
    ))


contract(
    f"{M}:State._get",
    params=dict(self=State, path=TStr, raw=TStr, info=FileInfo),
    returns=TOpt(TTuple([Meta, HashInfo])),
    requires=lambda c: And(c.info.ino.is_some, c.info.mtime.is_some, c.info.size.is_some),
    ensures=_get_post,
    props=["C13", "C01", "C02", "C03", "C05", "C10"],
    doc="a row is a hit only if its token equals the token of the stat in force and its version is not newer; "
        "legacy rows (no version, 'md5') are returned as md5-dos2unix",
)


# ---------------- StateInv, State.get / save ----------------
def eff_name(raw):
    hv = row(raw, "has_version", z3.BoolSort(), TBool)
    hname = row(raw, "hname", z3.StringSort(), TStr)
    return Ite(And(Not(hv), hname == "md5"), lift("md5-dos2unix"), hname)


def state_inv(table):
    """every row vouches for the hash of the content that its own token identifies"""
    import os

    if os.environ.get("NO_SINV"):
        return lift(True)
    p = SV(z3.String("p!si"), TStr)
    r = table[p]
    body = Implies(And(table.contains(p), row(r, "ok", z3.BoolSort(), TBool), row(r, "has_hash", z3.BoolSort(), TBool)),
                   And(row(r, "hvalue", z3.StringSort(), TStr) == HT(eff_name(r), p, row(r, "checksum", z3.StringSort(), TStr)),
                       row(r, "hvalue", z3.StringSort(), TStr).length() > 0))  # only truthy hashes are ever written (HashInfo.to_dict)
    return SV(z3.ForAll([p.t], body.t), TBool)


def table_of(hv, st):
    return hv.get("HashesCache.table", hv.get("State.hashes", st))


def _info_ok(c):
    """a caller-supplied stat is the current one, and stat results carry ino / mtime / size"""
    i = c.info.val
    return Implies(c.info.is_some, And(i == now_info(c.fs, c.path), i.ino.is_some, i.mtime.is_some, i.size.is_some, _exists_if_local(c)))


def _exists_if_local(c):
    """(ghost of the local filesystem, see contracts/store_check.py) the file is there"""
    return Implies(c.h.get("FileSystem.is_local", c.fs), c.h.G("lfiles").contains(c.path))


def _get_pub_post(c):
    meta, hi = c.result[0], c.result[1]
    cur = CK_info(now_info(c.fs, c.path))
    return And(
        meta.is_some == hi.is_some,
        Implies(hi.is_some, _exists_if_local(c)),
        Implies(hi.is_some, And(
            c.h.get("FileSystem.is_local", c.fs),                               # non-local filesystems never hit
            # a hit is the hash of the current bytes (or an empty HashInfo for a row that recorded none)
            Or(And(hi.val.value.is_some, hi.val.name.is_some, hi.val.value.val == HT(hi.val.name.val, c.path, cur), hi.val.value.val.length() > 0),
               And(hi.val.value.is_none, hi.val.name.is_none)),
        )),
    )


contract(
    f"{M}:State.get",
    params=dict(self=State, path=TStr, fs=FileSystem, info=TOpt(FileInfo)),
    returns=TTuple([TOpt(Meta), TOpt(HashInfo)]),
    requires=lambda c: And(state_inv(table_of(c.h, c.self)), _info_ok(c)),
    ensures=_get_pub_post,
    props=["C13", "C07", "C01", "C02", "C03", "C05", "C10"],
    doc="a hit equals the hash of the file's current bytes (StateInv + token-sound); never a hit for a non-local filesystem",
)


@extern("ext:dvc_data.json_compat.dumps")
def _json_dumps(engine, args, kwargs, node, self_expr):
    d = args[0]
    if not isinstance(d, SDict):
        from pyvc.types import Unsupported

        raise Unsupported("json_dumps of something else than a row dict")
    raw = TStr.fresh("raw")
    it = d.items
    facts = [row(raw, "ok", z3.BoolSort(), TBool)]
    for k, f, sort, ty in (("checksum", "checksum", z3.StringSort(), TStr), ("size", "size", z3.IntSort(), TInt), ("version", "version", z3.IntSort(), TInt)):
        if k in it:
            facts.append(row(raw, f, sort, ty) == it[k][1])
    facts.append(row(raw, "has_version", z3.BoolSort(), TBool) == ("version" in it))
    h = it.get("hash_info", (None, SDict()))[1]
    if isinstance(h, PairList) and h.pairs:
        (n, v), = h.pairs
        facts += [row(raw, "has_hash", z3.BoolSort(), TBool), row(raw, "hname", z3.StringSort(), TStr) == n, row(raw, "hvalue", z3.StringSort(), TStr) == v]
    else:
        facts.append(Not(row(raw, "has_hash", z3.BoolSort(), TBool)))
    for f in facts:
        engine.assume(lift(f, TBool))
    return raw


contract("ext:HashesCache.__setitem__", params=dict(self=HashesCache, key=TStr, value=TStr),
         modifies=lambda c: [("HashesCache.table", c.self)],
         ensures=lambda c: And(c.h.get("HashesCache.table", c.self).contains(c.key), c.h.get("HashesCache.table", c.self)[c.key] == c.value,
                               _rest_same(c)),
         assumed=True, doc="hashes[key] = value (sqlite upsert): one row replaced, the others untouched")


def _rest_same(c):
    k = SV(z3.String("k!rs"), TStr)
    t0, t1 = c.h0.get("HashesCache.table", c.self), c.h.get("HashesCache.table", c.self)
    return SV(z3.ForAll([k.t], z3.Implies(k.t != c.key.t, z3.And(t1.contains(k).t == t0.contains(k).t, t1[k].t == t0[k].t))), TBool)


def _vouched(c):
    """the hash handed to save() was computed from the file as stat'ed: the caller's obligation"""
    info = Ite(c.info.is_some, c.info.val, now_info(c.fs, c.path))
    return Implies(And(c.hash_info.name.is_some, c.hash_info.value.is_some),
                   c.hash_info.value.val == HT(c.hash_info.name.val, c.path, CK_info(info)))


contract(
    f"{M}:State.save",
    params=dict(self=State, path=TStr, fs=FileSystem, hash_info=HashInfo, info=TOpt(FileInfo)),
    requires=lambda c: And(state_inv(table_of(c.h, c.self)), _info_ok(c), _vouched(c)),
    raises={"FileNotFoundError": (lambda c: And(c.info.is_none, Implies(c.h.get("FileSystem.is_local", c.fs), Not(c.h.G("lfiles").contains(c.path)))),
                                  lambda c: table_of(c.h, c.self) == table_of(c.h0, c.self))},
    modifies=lambda c: [("HashesCache.table", c.h.get("State.hashes", c.self))],
    ensures=lambda c: And(state_inv(table_of(c.h, c.self)),
                          Implies(Not(c.h.get("FileSystem.is_local", c.fs)), table_of(c.h, c.self) == table_of(c.h0, c.self))),
    props=["C13", "C01", "C02", "C03", "C05", "C10"],
    doc="StateInv is preserved by every write of the hashes table; nothing is written for a non-local filesystem",
)


# ---------------- hash_file ----------------
from pyvc.builtins_ import CtxMgr  # noqa: E402
from pyvc.calls import TRANSPARENT_CLASSES  # noqa: E402
from specs.state import StateBase  # noqa: E402

H = "dvc_data.hashfile.hash"


@extern("ext:fsspec.utils.nullcontext")
def _nullcontext(engine, args, kwargs, node, self_expr):
    return CtxMgr(value=args[0] if args else None)


def cur_hash(c, name):
    return HT(name, c.path, CK_info(now_info(c.fs, c.path)))


from pyvc.calls import EXTERN_SYMBOLIC  # noqa: E402
from pyvc.types import TSet  # noqa: E402

EXTERN_SYMBOLIC["hashlib.algorithms_available"] = TSet(TStr)

META_TEXT_FIELDS = [f for f, t in Meta.fields.items() if isinstance(t, TOpt) and t.elem == TStr]
META_OTHER_FIELDS = [f for f in Meta.fields if f not in META_TEXT_FIELDS]


def alg_name(name):
    """type invariant of algorithm names: not the name of a non-text field of Meta (getattr(meta, name) is a checksum lookup)"""
    return And(*[name != f for f in META_OTHER_FIELDS])


def fs_checksums_sound(c):
    """FS-CHECKSUM (physical assumption, listed): a checksum that the filesystem's info() reports under key F for the file as it
    is now is the digest of its current bytes under algorithm F -- and is not a directory id"""
    m = meta_of(now_info(c.fs, c.path), c.h.get("FileSystem.protocol", c.fs) if False else OStr.some(c.h.get("FileSystem.protocol", c.fs)))
    out = []
    for f in META_TEXT_FIELDS:
        v = getattr(m, f)
        out.append(Implies(And(v.is_some, v.val.length() > 0), And(v.val == HT(lift(f), c.path, CK_info(now_info(c.fs, c.path))), Not(SV(z3.SuffixOf(z3.StringVal(".dir"), v.val.t), TBool)))))
    return And(*out)


contract("ext:FileSystem.<dynamic>", params=dict(self=FileSystem, name=TStr, path=TStr), returns=TStr,
         ensures=lambda c: And(c.result == HT(c.name, c.path, CK_info(now_info(c.self, c.path))), c.result.length() > 0),
         assumed=True, pure=True,
         doc="a hash method of the filesystem named after an algorithm (getattr(fs, name)(path)) returns the digest of the current bytes")
contract(f"{H}:file_md5", params=dict(fname=TStr, fs=FileSystem, callback=TOpt(Callback), name=TStr, size=TOpt(TInt)), returns=TStr,
         raises={"FileNotFoundError": (lambda c: Implies(c.h.get("FileSystem.is_local", c.fs), Not(c.h.G("lfiles").contains(c.fname))), None)},
         ensures=lambda c: And(c.result == HT(c.name, c.fname, CK_info(now_info(c.fs, c.fname))), c.result.length() > 0,
                               Implies(c.h.get("FileSystem.is_local", c.fs), c.h.G("lfiles").contains(c.fname))),
         assumed=True, verify=False,
         doc="[composition not verified] opens the file and feeds it to fobj_md5 (proved, C14): the digest of the current bytes under `name`")

contract(
    f"{H}:_hash_file",
    params=dict(path=TStr, fs=FileSystem, name=TStr, callback=TOpt(Callback), info=TOpt(FileInfo)),
    returns=TTuple([TStr, Meta]),
    requires=lambda c: And(_info_ok(c), alg_name(c.name)),
    raises={"NotImplementedError": (None, None),
            "FileNotFoundError": (lambda c: Implies(c.h.get("FileSystem.is_local", c.fs), Not(c.h.G("lfiles").contains(c.path))), None)},
    ensures=lambda c: And(c.result[0] == cur_hash(c, c.name), Not(c.result[0].contains(".dir")), c.result[0].length() > 0, _exists_if_local(c)),
    # digests are hex strings (no '.dir' inside): part of what HT denotes
    entry_assume=lambda c: And(fs_checksums_sound(c), Not(cur_hash(c, c.name).contains(".dir"))),
    assumes=['FS-CHECKSUM: a checksum that fs.info() reports under key F for the file as it is now is the digest of its current bytes under algorithm F', "digests are hex strings: they do not contain '.dir'"],
    bounded=("bounded/hash_file_fs.py", 60, 900),
    props=["C14", "C13"],
    doc="the digest of the file's current bytes under `name`, whichever of the three sources supplies it (checksum in fs.info under "
        "that very name, hash method of the filesystem of that name, hashing the bytes); also run as a bounded stand-in",
)


def _state_inv_of(hv, st):
    """StateInv of the table behind a state object (vacuous for StateNoop)"""
    from specs.state import State as StateT

    s = SV(st.t, StateT)
    return state_inv(table_of(hv, s))


def _hash_file_post(c):
    meta, hi = c.result[0], c.result[1]
    return And(hi.name == OStr.some(c.name), hi.value == OStr.some(cur_hash(c, c.name)), cur_hash(c, c.name).length() > 0,
               Implies(c.state.is_some, _state_inv_of(c.h, c.state.val)))


contract(
    f"{H}:hash_file",
    params=dict(path=TStr, fs=FileSystem, name=TStr, state=TOpt(StateBase), callback=TOpt(Callback), info=TOpt(FileInfo)),
    returns=TTuple([Meta, HashInfo]),
    requires=lambda c: And(Implies(c.state.is_some, _state_inv_of(c.h, c.state.val)), _info_ok(c), alg_name(c.name)),
    raises={"NotImplementedError": (None, lambda c: Implies(c.state.is_some, _state_inv_of(c.h, c.state.val))),
            "FileNotFoundError": (None, lambda c: Implies(c.state.is_some, _state_inv_of(c.h, c.state.val)))},
    modifies=lambda c: [("HashesCache.table", None)],
    ensures=_hash_file_post,
    props=["C13", "C01", "C07"],
    doc="with or without a state cache, the result is the hash of the file's current bytes under the requested algorithm "
        "(a cached entry recorded for another algorithm is never returned)",
)
