"""C14: hashing — dvc_data/hashfile/hash.py, istextfile.py"""
import z3

from pyvc import specfn
from pyvc.contracts import contract
from pyvc.interp import EXTERN_HANDLERS, extern
from pyvc.state import RaiseEx
from pyvc.types import SV, And, Implies, Ite, Not, Or, TBool, TBytes, TInt, TOpt, TStr, lift, seq_slice
from specs.heap import BinaryIO, Callback, Dos2UnixHashStreamFile, H, Hasher, HashStreamFile

M = "dvc_data.hashfile.hash"
EMPTY = lift(b"")
TEXT_CHARS = bytes(range(32, 127)) + b"\n\r\t\f\b"


# ---------------- spec functions ----------------
def d2u(x):
    return specfn.bytes_replace_all(x, lift(b"\r\n"), lift(b"\n"))


def nontext_len(block):
    f = specfn.ufn("bytes_delete", TBytes.sort(), TBytes.sort(), TBytes.sort())
    return SV(z3.Length(f(block.t, lift(TEXT_CHARS).t)), TInt)


def istext_spec(block):
    """written from istextfile's documented rule: empty => text; NUL => binary; else at most 30% non-text bytes"""
    return Or(block.length() == 0,
              And(Not(block.contains(lift(b"\x00"))), nontext_len(block) * 10 <= block.length() * 3))


def alg_of(name):
    """hashlib algorithm actually used for a hash name (statement: 'md5-dos2unix' is md5 over normalised text)"""
    return Ite(name == "md5-dos2unix", lift("md5"), name)


# ---------------- assumed: file objects, hashlib ----------------
contract(
    "ext:BinaryIO.read",
    params=dict(self=BinaryIO, n=TInt),
    returns=TBytes,
    modifies=lambda c: [("BinaryIO.remaining", c.self)],
    ensures=lambda c: And(
        c.result + c.h.get("BinaryIO.remaining", c.self) == c.h0.get("BinaryIO.remaining", c.self),
        Implies(c.n > 0, c.result.length() <= c.n),
        Implies(c.n < 0, c.h.get("BinaryIO.remaining", c.self).length() == 0),
        # empty only at EOF (or when asked for 0 bytes)
        Implies(And(c.result.length() == 0, c.n != 0), c.h0.get("BinaryIO.remaining", c.self).length() == 0),
        # regular files: a read returns everything asked for that is available
        Implies(And(c.h0.get("BinaryIO.full_reads", c.self), c.n > 0, c.h0.get("BinaryIO.remaining", c.self).length() <= c.n),
                c.h.get("BinaryIO.remaining", c.self).length() == 0),
    ),
    assumed=True,
    doc="BinaryIO.read(n): a prefix of the remaining bytes, at most n for n>0, all for n<0, empty only at EOF; advances",
)
contract(
    "ext:Hasher.update",
    params=dict(self=Hasher, data=TBytes),
    modifies=lambda c: [("Hasher.fed", c.self)],
    ensures=lambda c: c.h.get("Hasher.fed", c.self) == c.h0.get("Hasher.fed", c.self) + c.data,
    assumed=True,
    doc="hashlib: h.update(a); h.update(b) == h.update(a+b)",
)
contract(
    "ext:Hasher.hexdigest",
    params=dict(self=Hasher),
    returns=TStr,
    ensures=lambda c: c.result == H(c.h.get("Hasher.name", c.self), c.h.get("Hasher.fed", c.self)),
    assumed=True,
    doc="hexdigest() = H(name, everything fed so far)",
)
contract("ext:io.IOBase.__init__", params=dict(self=HashStreamFile), assumed=True, doc="io.IOBase.__init__: no effect on verified state")
contract("ext:Callback.set_size", params=dict(self=Callback, size=TOpt(TInt)), assumed=True, doc="progress plumbing: no effect")


def _new_hasher(engine, alg):
    r = engine.allocate(Hasher)
    engine.heap_set(r, "fed", EMPTY)
    engine.heap_set(r, "name", alg)
    engine.note_write("Hasher.fed")
    engine.note_write("Hasher.name")
    return r


class _HashlibCtor:
    def __init__(self, name):
        self.name = name


@extern("ext:hashlib.new")
def _hashlib_new(engine, args, kwargs, node, self_expr):
    engine.res.assumed_used.add("ext:hashlib.new (fresh hasher named as asked; ValueError for unknown names not modelled)")
    return _new_hasher(engine, lift(args[0], TStr))


@extern("getattr:hashlib")
def _hashlib_getattr(engine, args, kwargs, node, self_expr):
    """getattr(hashlib, name): either AttributeError or a constructor of a hasher with that name"""
    name = lift(args[1], TStr)
    has = SV(specfn.ufn("hashlib_has_attr", z3.StringSort(), z3.BoolSort())(name.t), TBool)
    engine.res.assumed_used.add("getattr(hashlib, name)() is a fresh hasher named `name` (or AttributeError)")
    if not engine.branch(has):
        raise RaiseEx("AttributeError", None, node)

    def ctor(engine, a, k, n):
        return _new_hasher(engine, name)

    ctor._pyvc_builtin = True
    return ctor


@extern("ext:blake3.blake3")
def _blake3(engine, args, kwargs, node, self_expr):
    engine.res.assumed_used.add("ext:blake3.blake3 (fresh hasher named 'blake3')")
    return _new_hasher(engine, lift("blake3"))


@extern("ext:blake3.blake3.AUTO")
def _blake3_auto(engine, args, kwargs, node, self_expr):
    return 0


# ---------------- istextblock ----------------
contract(
    "dvc_data.hashfile.istextfile:istextblock",
    params=dict(block=TBytes),
    returns=TBool,
    ensures=lambda c: c.result == istext_spec(c.block),
    pure=True,
    props=["C14", "C01"],
    doc="float division treated as rational arithmetic (DESIGN 3.3)",
)

# ---------------- get_hasher ----------------
contract(
    f"{M}:get_hasher",
    params=dict(name=TStr),
    returns=Hasher,
    fresh_result=True,
    ensures=lambda c: And(
        c.h.get("Hasher.fed", c.result).length() == 0,
        c.h.get("Hasher.name", c.result) == alg_of(c.name),
    ),
    props=["C14", "C01"],
    doc="a fresh hasher of the algorithm the name stands for; nothing that existed before is touched (frame)",
)


# ---------------- the two stream classes ----------------
def _stream_fields_same(c):
    s = c.self
    return And(c.h.get("HashStreamFile.fobj", s) == c.h0.get("HashStreamFile.fobj", s),
               c.h.get("HashStreamFile.hasher", s) == c.h0.get("HashStreamFile.hasher", s))


def _read_post(c, hashed):
    """shared shape: returns exactly the chunk read from the wrapped file; feeds `hashed(chunk)`; counts what it fed"""
    s = c.self
    f = c.h0.get("HashStreamFile.fobj", s)
    hs = c.h0.get("HashStreamFile.hasher", s)
    rem0, rem1 = c.h0.get("BinaryIO.remaining", f), c.h.get("BinaryIO.remaining", f)
    return And(
        _stream_fields_same(c),
        c.result + rem1 == rem0,  # pass-through: the bytes handed on are the bytes consumed
        Implies(c.n > 0, c.result.length() <= c.n),
        Implies(And(c.result.length() == 0, c.n != 0), rem0.length() == 0),
        Implies(And(c.h0.get("BinaryIO.full_reads", f), c.n > 0, rem0.length() <= c.n), rem1.length() == 0),
        c.h.get("Hasher.fed", hs) == c.h0.get("Hasher.fed", hs) + hashed(c.result),
        c.h.get("Hasher.name", hs) == c.h0.get("Hasher.name", hs),
        c.h.get("HashStreamFile.total_read", s) == c.h0.get("HashStreamFile.total_read", s) + hashed(c.result).length(),
    )


def _read_mod(c):
    s = c.self
    return [("BinaryIO.remaining", c.h0.get("HashStreamFile.fobj", s)),
            ("Hasher.fed", c.h0.get("HashStreamFile.hasher", s)),
            ("HashStreamFile.total_read", s)]


contract(
    f"{M}:HashStreamFile.read",
    params=dict(self=HashStreamFile, n=TInt),
    returns=TBytes,
    modifies=_read_mod,
    ensures=lambda c: _read_post(c, lambda chunk: chunk),
    props=["C14", "C01"],
    doc="hands on exactly the bytes it read, hashes them and counts them",
)


def dos_hashed(chunk):
    return Ite(And(chunk.length() > 0, istext_spec(seq_slice(chunk, 0, 512))), d2u(chunk), chunk)


contract(
    f"{M}:Dos2UnixHashStreamFile.read",
    params=dict(self=Dos2UnixHashStreamFile, n=TInt),
    returns=TBytes,
    requires=lambda c: c.n >= 512,
    modifies=_read_mod,
    ensures=lambda c: _read_post(c, dos_hashed),
    props=["C14", "C01"],
    doc="returns the RAW chunk; hashes the normalised chunk when its first 512 bytes sniff as text, else the chunk untouched",
)

# ---------------- fobj_md5 ----------------
def _is_dos(name):
    return name == "md5-dos2unix"


def _fobj_inv(c):
    st = c.loc.stream
    f, hs = c.h.get("HashStreamFile.fobj", st), c.h.get("HashStreamFile.hasher", st)
    rem, fed = c.h.get("BinaryIO.remaining", f), c.h.get("Hasher.fed", hs)
    content0 = c.h0.get("BinaryIO.remaining", c.fobj)
    plain = fed + rem == content0
    dos = Implies(And(c.h0.get("BinaryIO.full_reads", c.fobj), content0.length() <= c.chunk_size),
                  Or(And(rem == content0, fed.length() == 0),
                     And(rem.length() == 0, fed == dos_hashed(content0))))
    return And(
        f == c.fobj,
        c.h.get("BinaryIO.full_reads", c.fobj) == c.h0.get("BinaryIO.full_reads", c.fobj),
        c.h.get("Hasher.name", hs) == alg_of(specfn.str_lower(c.engine, c.name)),
        c.engine.dyn_class_is(st, "Dos2UnixHashStreamFile") == _is_dos(c.name),
        Or(c.engine.dyn_class_is(st, "Dos2UnixHashStreamFile"), c.engine.dyn_class_is(st, "HashStreamFile")),
        Ite(_is_dos(c.name), dos, plain),
    )


def _fobj_post(c):
    content0 = c.h0.get("BinaryIO.remaining", c.fobj)
    alg = alg_of(specfn.str_lower(c.engine, c.name))
    return And(
        # every algorithm but the legacy one: the digest of the whole content, whatever the sequence of short reads
        Implies(Not(_is_dos(c.name)), And(c.result == H(alg, content0), c.h.get("BinaryIO.remaining", c.fobj).length() == 0)),
        # legacy text-normalising md5, content that fits in one read of a regular file
        Implies(And(_is_dos(c.name), c.h0.get("BinaryIO.full_reads", c.fobj), content0.length() <= c.chunk_size),
                c.result == H(lift("md5"), dos_hashed(content0))),
    )


contract(
    f"{M}:fobj_md5",
    params=dict(fobj=BinaryIO, chunk_size=TInt, name=TStr),
    returns=TStr,
    requires=lambda c: And(c.chunk_size > 0, Implies(_is_dos(c.name), c.chunk_size >= 512)),
    modifies=lambda c: [("BinaryIO.remaining", c.fobj)],
    invariants={0: _fobj_inv},
    ensures=_fobj_post,
    props=["C14", "C01"],
    doc="digest = reference digest of the whole content regardless of read chunking",
)

# tell() of the wrapped file: its absolute position -- NOT a count of what passed through a wrapper (the file may have been read
# or positioned before): an unconstrained non-negative integer as far as the wrapper's bookkeeping is concerned
contract("ext:BinaryIO.tell", params=dict(self=BinaryIO), returns=TInt, ensures=lambda c: c.result >= 0, assumed=True,
         doc="fobj.tell(): the absolute position in the wrapped file (unrelated to the number of bytes a wrapper handed on)")
