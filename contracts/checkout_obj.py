"""C10 / C05: object-level checkout — dvc_data/hashfile/checkout.py"""
import z3

from pyvc.contracts import contract
from pyvc.types import SV, And, Exists, ForAll, Implies, Ite, Not, Or, TBool, TInt, TOpt, TStr, lift
from specs.heap import HashFileDB, o2p
from specs.records import Meta

M = "dvc_data.hashfile.checkout"

contract(
    "ext:dvc_objects.db.ObjectDB.oid_to_path",
    params=dict(self=HashFileDB, oid=TStr),
    returns=TStr,
    ensures=lambda c: c.result == o2p(c.h.get("HashFileDB.path", c.self), c.oid),
    assumed=True,
    doc="ObjectDB.oid_to_path = fs.join(path, oid[:2], oid[2:])",
)


def already_linked_as(c, t):
    """the workspace file already is a link of type t to THIS cache object (written from the statement:
    independent copy, hard link, or symbolic link to the cache object)"""
    m, cm = c.meta, c.cache_meta
    is_copy = And(Not(m.is_link), m.nlink == 1)
    is_hard = And(Not(m.is_link), m.nlink > 1, cm.is_some, m.inode == cm.val.inode)
    is_sym = And(m.is_link, m.destination.is_some, c.oid.is_some,
                 m.destination.val == o2p(c.h.get("HashFileDB.path", c.cache), c.oid.val))
    return Or(And(Or(t == "copy", t == "reflink"), is_copy), And(t == "hardlink", is_hard), And(t == "symlink", is_sym))


def _types(c):
    return c.h.get("HashFileDB.cache_types", c.cache)


def _nr_post(c):
    j = TInt.fresh("j!nr")
    ts = _types(c)
    return Implies(Not(c.result), Exists([j], And(j >= 0, j < ts.length(), already_linked_as(c, ts[j]))))


contract(
    f"{M}:_needs_relink",
    params=dict(path=TStr, cache=HashFileDB, meta=Meta, cache_meta=TOpt(Meta), oid=TOpt(TStr)),
    returns=TBool,
    requires=lambda c: c.meta.nlink >= 1,  # type invariant of stat results
    invariants={0: lambda c: c.loc.destination == c.meta.destination},
    ensures=_nr_post,
    pure=True,
    props=["C10"],
    doc="'no relink needed' is answered only if the file already is one of the configured link types to this cache object",
)
