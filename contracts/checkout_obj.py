"""C10 / C05: object-level checkout — dvc_data/hashfile/checkout.py"""
import z3

from pyvc.contracts import contract
from pyvc.types import SV, And, Exists, ForAll, Implies, Ite, Not, Or, TBool, TInt, TOpt, TStr, lift
from specs.heap import HashFileDB, O, o2p
from specs.records import Meta

M = "dvc_data.hashfile.checkout"

contract(
    "ext:dvc_objects.db.ObjectDB.oid_to_path",
    params=dict(self=HashFileDB, oid=TStr),
    returns=TStr,
    ensures=lambda c: And(c.result == o2p(c.h.get("HashFileDB.path", c.self), c.oid), c.result == O(c.h.get("HashFileDB.path", c.self), c.oid)),
    assumed=True,
    doc="ObjectDB.oid_to_path = fs.join(path, oid[:2], oid[2:]) (named O(path, oid) in specifications)",
)


def already_linked_as(c, t):
    """the workspace file already is a link of type t to THIS cache object (written from the statement:
    independent copy, hard link, or symbolic link to the cache object)"""
    m, cm = c.meta, c.cache_meta
    is_copy = And(Not(m.is_link), m.nlink == 1)
    is_hard = And(Not(m.is_link), m.nlink > 1, cm.is_some, m.inode == cm.val.inode)
    is_sym = And(m.is_link, m.destination.is_some, c.oid.is_some,
                 m.destination.val == O(c.h.get("HashFileDB.path", c.cache), c.oid.val))
    return Or(And(Or(t == "copy", t == "reflink"), is_copy), And(t == "hardlink", is_hard), And(t == "symlink", is_sym))


def _types(c):
    return c.h.get("HashFileDB.cache_types", c.cache)


def _nr_post(c):
    j = TInt.fresh("j!nr")
    ts = _types(c)
    return Implies(Not(c.result), Exists([j], And(j >= 0, j < ts.length(), already_linked_as(c, ts[j]))))


contract(
    f"{M}:_needs_relink",
    params=dict(path=TStr, cache=HashFileDB, meta=Meta, cache_meta=TOpt(Meta), oid=TOpt(TStr)),
    returns=TBool,
    requires=lambda c: c.meta.nlink >= 1,  # type invariant of stat results
    invariants={0: lambda c: c.loc.destination == c.meta.destination},
    ensures=_nr_post,
    pure=True,
    props=["C10"],
    doc="'no relink needed' is answered only if the file already is one of the configured link types to this cache object",
)


# =====================================================================================================
# C05: checkout never destroys user data that is not recoverable from the cache
# =====================================================================================================
from pyvc.interp import extern  # noqa: E402
from pyvc.types import TFn, TList, TRef, TSet  # noqa: E402
from specs.heap import FileSystem  # noqa: E402
from specs.records import Change  # noqa: E402

Prompt = TOpt(TFn(TStr, TBool))
from specs.heap import Callback  # noqa: E402

Link = TRef("Link", fields=dict(_links=TOpt(TList(TStr)), _callback=Callback, _created_dirs=TSet(TStr)), qualname="dvc_data.hashfile.checkout:Link")


def files(hv, fs):
    return hv.get("FileSystem.files", fs)


def removed(hv, fs):
    return hv.get("FileSystem.removed", fs)


def under(p):
    """the paths that go away when p is removed: p itself and everything below it"""
    from pyvc import specfn

    f = specfn.ufn("under", z3.StringSort(), TSet(TStr).sort())
    return SV(f(p.t), TSet(TStr))


def msg(path):
    return lift("file/directory '") + path + "' is going to be removed. Are you sure you want to proceed?"


def approved(c):
    return And(c.prompt.is_some, c.prompt.val[msg(c.path)])


contract("ext:FileSystem.exists", params=dict(self=FileSystem, path=TStr), returns=TBool,
         ensures=lambda c: c.result == files(c.h, c.self).contains(c.path), assumed=True, doc="fs.exists(path)")
contract("ext:FileSystem.is_hardlink", params=dict(self=FileSystem, path=TStr), returns=TBool, assumed=True, doc="fs.is_hardlink(path): stat only")
contract("ext:FileSystem.iscopy", params=dict(self=FileSystem, path=TStr), returns=TBool, assumed=True, doc="fs.iscopy(path): stat only")


@extern("ext:FileSystem.remove")
def _fs_remove(engine, args, kwargs, node, self_expr):
    """remove(path) and remove([paths]) share one name: dispatch on the argument"""
    fs, target = args[0], args[1]
    from pyvc.contracts import REG
    from pyvc.types import SV

    if isinstance(target, SV) and target.ty == TStr:
        return engine.apply_contract(REG.get("ext:FileSystem.remove#one"), None, [fs, target], {}, node)
    return engine.apply_contract(REG.get("ext:FileSystem.remove#many"), None, [fs, target], {}, node)


contract(
    "ext:FileSystem.remove#one",
    params=dict(self=FileSystem, path=TStr),
    raises={"FileNotFoundError": (lambda c: Not(files(c.h, c.self).contains(c.path)), lambda c: And(files(c.h, c.self) == files(c.h0, c.self), removed(c.h, c.self) == removed(c.h0, c.self)))},
    modifies=lambda c: [("FileSystem.files", c.self), ("FileSystem.removed", c.self)],
    ensures=lambda c: And(files(c.h0, c.self).contains(c.path),  # returns normally only if there was something to remove
                          Not(files(c.h, c.self).contains(c.path)), files(c.h, c.self).subset(files(c.h0, c.self)),
                          files(c.h, c.self) == files(c.h0, c.self) - under(c.path),
                          removed(c.h, c.self) == removed(c.h0, c.self).add(c.path)),
    assumed=True,
    doc="fs.remove(path): the path (with what is below it) is gone and logged as removed; nothing is created",
)
# the list form (used by gc) keeps its contract from contracts/gc.py under the '#many' name
import contracts.gc as _gc  # noqa: E402,F401
from pyvc.contracts import REG as _REG  # noqa: E402

_REG.by_name["ext:FileSystem.remove#many"] = _REG.by_name.pop("ext:FileSystem.remove")
_REG.by_name["ext:FileSystem.remove#many"].qualname = "ext:FileSystem.remove#many"


def _remove_may_raise(c):
    return And(Not(c.force), Not(c.in_cache), files(c.h, c.fs).contains(c.path), Not(approved(c)))


contract(
    f"{M}:_remove",
    params=dict(path=TStr, fs=FileSystem, in_cache=TBool, force=TBool, prompt=Prompt),
    raises={"PromptError": (_remove_may_raise, lambda c: And(files(c.h, c.fs) == files(c.h0, c.fs), removed(c.h, c.fs) == removed(c.h0, c.fs)))},
    modifies=lambda c: [("FileSystem.files", c.fs), ("FileSystem.removed", c.fs), ("G.lfiles",), ("G.l444",)],
    ensures=lambda c: And(
        # whatever is taken away was consented to, recoverable from the cache, or was not there
        Implies(And(files(c.h0, c.fs).contains(c.path), removed(c.h, c.fs) != removed(c.h0, c.fs)), Or(c.force, c.in_cache, approved(c))),
        removed(c.h, c.fs).subset(removed(c.h0, c.fs).add(c.path)),
        files(c.h, c.fs).subset(files(c.h0, c.fs)),
        # it returns normally only outside the refusing case, and it either removed exactly this path or did nothing
        Or(c.force, c.in_cache, Not(files(c.h0, c.fs).contains(c.path)), approved(c)),
        Or(And(removed(c.h, c.fs) == removed(c.h0, c.fs), files(c.h, c.fs) == files(c.h0, c.fs)),
           And(removed(c.h, c.fs) == removed(c.h0, c.fs).add(c.path), files(c.h, c.fs) == files(c.h0, c.fs) - under(c.path))),
        Implies(Not(files(c.h0, c.fs).contains(c.path)), removed(c.h, c.fs) == removed(c.h0, c.fs)),
    ),
    props=["C05"],
    doc="removal guard: not forced and not in cache -> prompt or PromptError, and then nothing is touched",
)

contract("dvc_data.hashfile.checkout:Link.__call__", params=dict(self=Link, cache=HashFileDB, from_path=TStr, to_fs=FileSystem, to_path=TStr),
         raises={"CheckoutError": (None, lambda c: removed(c.h, c.to_fs) == removed(c.h0, c.to_fs))},
         modifies=lambda c: [("FileSystem.files", c.to_fs)],
         ensures=lambda c: files(c.h, c.to_fs) == files(c.h0, c.to_fs).add(c.to_path),
         assumed=True, verify=False, doc="Link(cache, from, fs, to): creates `to` (never removes anything)")
contract("dvc_data.hashfile.db:HashFileDB.protect", params=dict(self=HashFileDB, path=TStr), assumed=True, doc="mode bits only")
contract("dvc_data.hashfile.db.local:LocalHashFileDB.protect", params=dict(self=HashFileDB, path=TStr), assumed=True, verify=False, doc="mode bits only (os.chmod)")
contract("dvc_data.hashfile.db:HashFileDB.unprotect", params=dict(self=HashFileDB, path=TStr), assumed=True, doc="base class: no-op")
contract("dvc_data.hashfile.db.local:LocalHashFileDB.unprotect", params=dict(self=HashFileDB, path=TStr), assumed=True, verify=False,
         doc="[to be verified] content-preserving: copy to a temporary sibling, remove, rename, chmod")


def _cf_post(c):
    fs = c.fs
    consent = Or(c.force, c.change.old.cache_meta.is_some, approved(c))
    return And(
        # the workspace file is taken away only with consent or when the OLD object is recoverable from the cache
        Implies(And(files(c.h0, fs).contains(c.path), removed(c.h, fs) != removed(c.h0, fs)), consent),
        removed(c.h, fs).subset(removed(c.h0, fs).add(c.path)),
    )


contract(
    f"{M}:_checkout_file",
    params=dict(link=Link, path=TStr, fs=FileSystem, change=Change, cache=HashFileDB, force=TBool, relink=TBool, state=None, prompt=Prompt),
    returns=TBool,
    requires=lambda c: And(_types(c).length() >= 1, c.change.new.oid.is_some, c.change.new.oid.val.value.is_some,
                           c.change.new.oid.val.value.val.length() > 0),
    raises={"PromptError": (None, lambda c: removed(c.h, c.fs) == removed(c.h0, c.fs)), "CheckoutError": (None, lambda c: _cf_post(c))},
    modifies=lambda c: [("FileSystem.files", c.fs), ("FileSystem.removed", c.fs), ("G.lfiles",), ("G.l444",)],
    ensures=_cf_post,
    props=["C05", "C10"],
    doc="every overwrite goes through the guarded removal, with the cache status of the OLD object",
)


from pyvc.types import TReal  # noqa: E402

contract(
    "dvc_data.hashfile.utils:to_nanoseconds",
    params=dict(ts=TReal),
    returns=TInt,
    ensures=lambda c: And(lift(c.result, TReal) - c.ts * 1000000000 <= lift(0.5, TReal), c.ts * 1000000000 - lift(c.result, TReal) <= lift(0.5, TReal)),
    pure=True,
    props=["C05", "C10"],
    doc="the link token of a single file has nanosecond resolution: the integer nearest to ts * 10^9 "
        "(two mtimes at least 1 ns apart never collapse); float arithmetic treated as exact",
)
