"""C18: push / fetch through storage mappings.  The object branches of push/fetch hand the reachable request to transfer():
_do_transfer's proved contract (C04/C11) is what decides 'exactly the reachable objects arrive, counts add up, retry completes'.
Prefix resolution and collection are outside the verifier's reach for now: bounded stand-ins, labelled."""
import contracts.transfer  # noqa: F401
from pyvc.contracts import REG, contract

contract(
    "dvc_data.index.index:StorageMapping.__getitem__",
    verify=False,
    bounded=("bounded/storage_map.py", 400, 5000),
    props=["C18"],
    doc="per role, the storage of the longest mapped prefix defining it; StorageKeyError iff none "
        "(deductive contract not attempted yet: sorted() + prefix reasoning over sequences)",
)
contract(
    "dvc_data.index.collect:collect",
    verify=False,
    bounded=("bounded/push_fetch.py", 30, 400),
    props=["C18", "C04"],
    doc="collect + push + fetch on generated multi-prefix indexes: every remote holds the objects the mapping designates for it",
)
for q in ("dvc_data.hashfile.transfer:_do_transfer",):
    c = REG.get(q)
    if c and "C18" not in c.props:
        c.props = list(c.props) + ["C18"]
