"""C07 / C15 / C01 (protection): integrity checks of object stores — db/__init__.py, db/local.py"""
import z3

import contracts.build  # noqa: F401
import contracts.checkout_obj  # noqa: F401
from contracts.build import cur
from contracts.state import _state_inv_of, now_info
from pyvc import specfn
from pyvc.contracts import REG, contract
from pyvc.interp import extern
from pyvc.types import SV, And, Implies, Ite, Not, Or, TBool, TInt, TList, TOpt, TRec, TSet, TStr, lift
from specs.heap import FileSystem, HashFileDB, LocalHashFileDB, O
from specs.records import HashInfo, Meta
from specs.state import FileInfo

OStr = TOpt(TStr)
HashFileObj = TRec("HashFile", fields=dict(path=TStr, fs=FileSystem, hash_info=HashInfo, oid=TStr))
D = "dvc_data.hashfile.db"
L = "dvc_data.hashfile.db.local"


def first(s):
    """s.split('.')[0] -- the raw digest of an id (spec function shared with the code's encoding)"""
    f = specfn.ufn("str_split", z3.StringSort(), z3.StringSort(), z3.SeqSort(z3.StringSort()))
    return SV(f(s.t, z3.StringVal("."))[0], TStr)


def lfiles(hv):
    return hv.G("lfiles")


def l444(hv):
    return hv.G("l444")


def P(c):  # path of the object named c.oid in the store c.self
    return O(c.h0.get("HashFileDB.path", c.self), c.oid)


def goodp(c, path=None):
    """the bytes at the object's path hash (under the store's algorithm) to the raw digest in its name"""
    p = path if path is not None else P(c)
    return first(cur(c.h0.get("HashFileDB.fs", c.self), c.h0.get("HashFileDB.hash_name", c.self), p)) == first(c.oid)


# ---------------- assumed leaf operations ----------------
contract(
    f"{D}:HashFileDB.get", params=dict(self=HashFileDB, oid=TStr), returns=HashFileObj,
    ensures=lambda c: And(c.result.path == O(c.h.get("HashFileDB.path", c.self), c.oid), c.result.fs == c.h.get("HashFileDB.fs", c.self),
                          c.result.oid == c.oid, c.result.hash_info == HashInfo.mk(name=OStr.some(c.h.get("HashFileDB.hash_name", c.self)), value=OStr.some(c.oid))),
    assumed=True, verify=False,
    doc="odb.get(oid): the HashFile (path = oid_to_path(oid), fs, HashInfo(hash_name, oid)) -- constructor of an external base class",
)
contract(
    "dvc_data.fsutils:_localfs_info", params=dict(path=TStr), returns=FileInfo,
    raises={"FileNotFoundError": (lambda c: Not(lfiles(c.h).contains(c.path)), None)},
    ensures=lambda c: And(lfiles(c.h).contains(c.path), c.result.mode.is_some, c.result.ino.is_some, c.result.mtime.is_some, c.result.size.is_some,
                          c.result.type.is_some, _local_now(c, c.path, c.result),
                          (S_IMODE(c.result.mode.val) == 292) == l444(c.h).contains(c.path)),
    assumed=True, verify=False,
    doc="os.stat of a local path: FileNotFoundError iff absent; permission bits are exactly 0o444 iff the path is in the ghost set l444",
)


@extern("ext:contextlib.suppress")
def _suppress(engine, args, kwargs, node, self_expr):
    from pyvc.builtins_ import CtxMgr

    names = [a[1] if isinstance(a, tuple) else getattr(a, "dotted", str(a)).split(".")[-1] for a in args]
    return CtxMgr(value=None, suppress=names)


def _local_now(c, path, info):
    """a stat taken through os.stat is THE current stat of that path on every local filesystem object"""
    r = SV(z3.Const("r!ln", z3.IntSort()), FileSystem)
    return SV(z3.ForAll([r.t], z3.Implies(c.h.get("FileSystem.is_local", r).t, info.t == now_info(r, path).t)), TBool)


def S_IMODE(m):
    return SV(specfn.ufn("S_IMODE", z3.IntSort(), z3.IntSort())(m.t), TInt)


@extern("ext:stat.S_IMODE")
def _s_imode(engine, args, kwargs, node, self_expr):
    return S_IMODE(lift(args[0], TInt))


# fs.remove(path) on a local filesystem also updates the os-level ghost
_rm = REG.get("ext:FileSystem.remove#one")
_rm_mod, _rm_ens, _rm_raises = _rm.modifies, _rm.ensures, _rm.raises
_rm.modifies = lambda c: _rm_mod(c) + [("G.lfiles",), ("G.l444",)]
_rm.ensures = lambda c: And(_rm_ens(c), lfiles(c.h) == lfiles(c.h0).remove(c.path), l444(c.h) == l444(c.h0).remove(c.path))
_rm_when0, _rm_post0 = _rm_raises["FileNotFoundError"]
_rm.raises = {"FileNotFoundError": (lambda c: Ite(c.h.get("FileSystem.is_local", c.self), Not(lfiles(c.h).contains(c.path)), _rm_when0(c)),
                                    lambda c: And(_rm_post0(c), lfiles(c.h) == lfiles(c.h0), l444(c.h) == l444(c.h0)))}

def chmod_ok():
    """the filesystem lets the owner change mode bits (false on the 'funky' filesystems protect() shrugs off)"""
    return SV(z3.Bool("chmod_ok"), TBool)


contract(
    f"{L}:LocalHashFileDB.protect", params=dict(self=HashFileDB, path=TStr),
    modifies=lambda c: [("G.l444",)],
    ensures=lambda c: And(Or(l444(c.h) == l444(c.h0), And(l444(c.h) == l444(c.h0).add(c.path), lfiles(c.h).contains(c.path))),
                          Implies(And(chmod_ok(), lfiles(c.h).contains(c.path)), l444(c.h) == l444(c.h0).add(c.path))),
    assumed=True, verify=False,
    doc="os.chmod(path, 0o444), failures swallowed: at most this one path becomes protected; nothing is unprotected",
)
REG.by_name.pop("dvc_data.hashfile.db:HashFileDB.protect", None)
contract(f"{D}:HashFileDB.protect", params=dict(self=HashFileDB, path=TStr), assumed=True, doc="base class: no-op")

# hash_file as used by check(): the digest of the object's current bytes (C13/C14), FileNotFoundError iff the file is absent
_hf = REG.get("dvc_data.hashfile.hash:hash_file")
_hf_ens = _hf.ensures
_hf.ensures = lambda c: And(_hf_ens(c), Implies(c.h.get("FileSystem.is_local", c.fs), lfiles(c.h).contains(c.path)))
_hf.raises = dict(_hf.raises, FileNotFoundError=(lambda c: Implies(c.h.get("FileSystem.is_local", c.fs), Not(lfiles(c.h).contains(c.path))),
                                                  _hf.raises["FileNotFoundError"][1]))


_fi = REG.get("ext:FileSystem.info")
_fi_ens = _fi.ensures
_fi.ensures = lambda c: And(_fi_ens(c), c.result.type.is_some, Implies(c.h.get("FileSystem.is_local", c.self), lfiles(c.h).contains(c.path)))
_fi.raises = {"FileNotFoundError": (lambda c: Implies(c.h.get("FileSystem.is_local", c.self), Not(lfiles(c.h).contains(c.path))), None)}


# ---------------- HashFileDB.check ----------------
def _local(c):
    """the store sits on a local filesystem and its algorithm name is an algorithm name (see contracts.state.alg_name)"""
    from contracts.state import alg_name

    return And(c.h0.get("FileSystem.is_local", c.h0.get("HashFileDB.fs", c.self)), alg_name(c.h0.get("HashFileDB.hash_name", c.self)))


def _check_pre(c):
    return And(_local(c), _state_inv_of(c.h, c.h.get("HashFileDB.state", c.self)), c.oid.length() > 0,
               # a caller-supplied stat is the current stat of an existing object file
               Implies(c._info.is_some, And(c._info.val == now_info(c.h.get("HashFileDB.fs", c.self), P(c)), lfiles(c.h).contains(P(c)),
                                            c._info.val.ino.is_some, c._info.val.mtime.is_some, c._info.val.size.is_some, c._info.val.type.is_some,
                                            c._info.val.mode.is_some,
                                            (S_IMODE(c._info.val.mode.val) == 292) == l444(c.h).contains(P(c)))))


_check_raises = {
    # missing -> FileNotFoundError (nothing changes)
    "FileNotFoundError": (lambda c: Not(lfiles(c.h).contains(P(c))), lambda c: And(lfiles(c.h) == lfiles(c.h0), l444(c.h) == l444(c.h0))),
    # rejected -> the bytes do not match the name, and the object is gone afterwards
    "ObjectFormatError": (lambda c: And(c.check_hash, Not(goodp(c))), lambda c: And(Not(lfiles(c.h).contains(P(c))), lfiles(c.h) == lfiles(c.h0).remove(P(c)))),
}


def _check_post_base(c):
    return And(
        lfiles(c.h) == lfiles(c.h0),                     # an accepted object is not touched
        lfiles(c.h).contains(P(c)),
        Implies(c.check_hash, goodp(c)),                  # accepted after hashing => the bytes match the name
        Or(l444(c.h) == l444(c.h0), l444(c.h) == l444(c.h0).add(P(c))),
    )


contract(
    f"{D}:HashFileDB.check",
    params=dict(self=HashFileDB, oid=TStr, check_hash=TBool, _info=TOpt(FileInfo)),
    returns=Meta,
    requires=_check_pre,
    raises=_check_raises,
    modifies=lambda c: [("G.lfiles",), ("G.l444",), ("FileSystem.files", None), ("FileSystem.removed", None), ("HashesCache.table", None)],
    ensures=_check_post_base,
    # C15: if the process dies after any mutating call of check(), the object is not write-protected unless it was so before or its
    # bytes match its name (protect must come AFTER the comparison)
    crash=lambda c: Implies(And(l444(c.h).contains(P(c)), Not(l444(c.h0).contains(P(c)))), goodp(c)),
    props=["C07", "C15", "C11", "C12", "C04"],
    doc="re-hash (through the state cache), compare raw digests, delete on mismatch, protect on success",
)


def _check_post_local(c):
    return And(
        lfiles(c.h) == lfiles(c.h0), lfiles(c.h).contains(P(c)),
        # accepted => it was write-protected already (trusted without hashing) or its bytes match its name
        Or(l444(c.h0).contains(P(c)), Implies(c.check_hash, goodp(c))),
        # a successful (hashing) check leaves a local object read-only -- unless chmod failed (swallowed)
        Or(l444(c.h) == l444(c.h0), l444(c.h) == l444(c.h0).add(P(c))),
    )


contract(
    f"{L}:LocalHashFileDB.check",
    params=dict(self=LocalHashFileDB, oid=TStr, check_hash=TBool, _info=TOpt(FileInfo)),
    returns=Meta,
    requires=lambda c: And(_check_pre(c), c.engine.dyn_class_is(c.self, "LocalHashFileDB")),
    raises=_check_raises,
    modifies=lambda c: [("G.lfiles",), ("G.l444",), ("FileSystem.files", None), ("FileSystem.removed", None), ("HashesCache.table", None)],
    ensures=_check_post_local,
    lemmas={
        # an intact object is never rejected (the exceptional clause 'ObjectFormatError => not good' is the other half)
        "returned_unprotected_matches": lambda c: Implies(And(Not(l444(c.h0).contains(P(c))), c.check_hash), goodp(c)),
    },
    props=["C07", "C15", "C11", "C12", "C04"],
    doc="local store trusts only files whose mode is exactly the protected mode; everything else is re-hashed",
)

def _sinv(c):
    return _state_inv_of(c.h, c.h0.get("HashFileDB.state", c.self))


def _wrap_raises(q, local):
    con = REG.get(q)
    r = dict(con.raises)
    r["NotImplementedError"] = (None, lambda c: And(lfiles(c.h) == lfiles(c.h0), l444(c.h) == l444(c.h0), _sinv(c)))
    w_f, p_f = r["FileNotFoundError"]
    r["FileNotFoundError"] = (w_f, lambda c: And(p_f(c), _sinv(c)))
    w_o, p_o = r["ObjectFormatError"]
    if local:
        # a local store rejects only what was not write-protected
        r["ObjectFormatError"] = (lambda c: And(w_o(c), Not(l444(c.h0).contains(P(c)))), lambda c: And(p_o(c), _sinv(c), l444(c.h) == l444(c.h0).remove(P(c))))
    else:
        r["ObjectFormatError"] = (w_o, lambda c: And(p_o(c), _sinv(c), l444(c.h) == l444(c.h0).remove(P(c))))
    con.raises = r
    e = con.ensures
    con.ensures = lambda c: And(e(c), _sinv(c))


_wrap_raises(f"{D}:HashFileDB.check", False)
_wrap_raises(f"{L}:LocalHashFileDB.check", True)


# ---------------- LocalHashFileDB.oids_exist ----------------
@extern("ext:functools.partial")
def _partial(engine, args, kwargs, node, self_expr):
    return ("__partial__",) + tuple(args)


@extern("ext:dvc_objects.db.wrap_iter")
def _wrap_iter(engine, args, kwargs, node, self_expr):
    engine.res.drops.add("wrap_iter(it, callback) treated as the identity on the wrapped iterable (progress plumbing)")
    return args[0]


@extern("ext:dvc_objects.db.noop")
def _noop(engine, args, kwargs, node, self_expr):
    return None


def Pof(c, oid):
    return O(c.h0.get("HashFileDB.path", c.self), oid)


def good_oid(c, oid):
    return first(cur(c.h0.get("HashFileDB.fs", c.self), c.h0.get("HashFileDB.hash_name", c.self), Pof(c, oid))) == first(oid)


def _ret_ok(c, ret):
    k = SV(z3.Const("k!oe", z3.IntSort()), TInt)
    return SV(z3.ForAll([k.t], Implies(And(k >= 0, k < ret.length()),
                                       And(lfiles(c.h).contains(Pof(c, ret[k])),
                                           Or(l444(c.h0).contains(Pof(c, ret[k])), good_oid(c, ret[k])))).t), TBool)


def _kept(c):
    """objects that were write-protected are never removed by an existence query"""
    p = SV(z3.String("p!oe"), TStr)
    return SV(z3.ForAll([p.t], Implies(And(l444(c.h0).contains(p), lfiles(c.h0).contains(p)), lfiles(c.h).contains(p)).t), TBool)


def _prot_ok(c):
    """whatever is write-protected now either was so at entry or matches its name"""
    o = SV(z3.String("o!pk"), TStr)
    return SV(z3.ForAll([o.t], Implies(l444(c.h).contains(Pof(c, o)), Or(l444(c.h0).contains(Pof(c, o)), good_oid(c, o))).t), TBool)


def _oe_inv(c):
    return And(_ret_ok(c, c.loc.ret), _prot_ok(c), lfiles(c.h).subset(lfiles(c.h0)), l444(c.h0).inter(lfiles(c.h)).subset(l444(c.h)), _kept(c),
               _state_inv_of(c.h, c.h.get("HashFileDB.state", c.self)))


from specs.heap import O_injective, O_inv_axiom  # noqa: E402

contract(
    f"{L}:LocalHashFileDB.oids_exist",
    params=dict(self=LocalHashFileDB, oids=TList(TStr), jobs=TOpt(TInt)),
    returns=TList(TStr),
    requires=lambda c: And(O_injective(), _local(c), c.engine.dyn_class_is(c.self, "LocalHashFileDB"),
                           _state_inv_of(c.h, c.h.get("HashFileDB.state", c.self)),
                           _all(c.oids, lambda o: o.length() > 0)),
    raises={"NotImplementedError": (None, None)},
    modifies=lambda c: [("G.lfiles",), ("G.l444",), ("FileSystem.files", None), ("FileSystem.removed", None), ("HashesCache.table", None)],
    locals=dict(ret=TList(TStr)),
    invariants={0: _oe_inv},
    ensures=lambda c: And(_ret_ok(c, c.result), _kept(c), lfiles(c.h).subset(lfiles(c.h0))),
    props=["C07", "C15", "C11", "C12", "C04"],
    doc="an existence query on a local store is an integrity check: every id returned is present and either was write-protected "
        "or matches its name; write-protected objects are never removed",
)


contract(
    "ext:dvc_objects.db.ObjectDB.list_oids_exists",
    params=dict(self=HashFileDB, oids=TList(TStr), jobs=TOpt(TInt)),
    returns=TList(TStr),
    ensures=lambda c: _all(c.result, lambda o: And(specfn.list_elems(c.oids).contains(OStr.some(o)) if False else lift(True),
                                                   lfiles(c.h).contains(O(c.h.get("HashFileDB.path", c.self), o)))),
    assumed=True,
    doc="ObjectDB.list_oids_exists(oids): the requested ids whose object FILE exists (fs.exists in batches) -- it looks at no bytes",
)


def _all(L, f):
    i = SV(z3.Const("i!al", z3.IntSort()), TInt)
    return SV(z3.ForAll([i.t], Implies(And(i >= 0, i < L.length()), f(L[i])).t), TBool)


# =====================================================================================================
# HashFileDB.add: verify / protect / state order (C07 'verify never retains a mismatching object', C15 crash condition)
# =====================================================================================================
from pyvc.types import TOMap  # noqa: E402
from specs.heap import Callback  # noqa: E402

OIDS = TList(OStr)


def _req(c, o):  # o: Str is one of the requested ids
    return specfn.list_elems(c.oid).contains(OStr.some(o))


def _added_only_requested(c):
    """ObjectDB.add creates nothing but the requested objects and removes nothing"""
    o = SV(z3.String("o!ad"), TStr)
    path = c.h0.get("HashFileDB.path", c.self)
    return And(lfiles(c.h0).subset(lfiles(c.h)),
               SV(z3.ForAll([o.t], Implies(And(lfiles(c.h).contains(O(path, o)), Not(lfiles(c.h0).contains(O(path, o)))), _req(c, o)).t), TBool),
               # what is placed carries the source's bytes; IF those hash to the id it is filed under (Named), the new object is intact
               SV(z3.ForAll([o.t], Implies(And(_named(c), lfiles(c.h).contains(O(path, o)), Not(lfiles(c.h0).contains(O(path, o)))),
                                           first(cur(c.h0.get("HashFileDB.fs", c.self), c.h0.get("HashFileDB.hash_name", c.self), O(path, o))) == first(o)).t), TBool),
               # copies (no hard links) arrive unprotected; protection of everything else is untouched
               # what is placed is unprotected unless it is a hard link to a write-protected source; protection of everything else is untouched
               Implies(Not(linked_from_protected(c)), SV(z3.ForAll([o.t], (l444(c.h).contains(O(path, o)) == l444(c.h0).contains(O(path, o))).t), TBool)))


contract(
    "ext:dvc_objects.db.ObjectDB.add",
    params=dict(self=HashFileDB, path=TList(TStr), fs=FileSystem, oid=OIDS, hardlink=TBool, check_exists=TBool),
    returns=TInt,
    modifies=lambda c: [("G.lfiles",), ("G.l444",), ("HashFileDB.objs", c.self)],
    ensures=_added_only_requested,
    assumed=True,
    assumes=["bytes at a path do not change during a verified call: ObjectDB.add is described for objects that were ABSENT before the call; "
             "with check_exists=False (what transfer() passes) the dependency re-copies over an object that is already present, which this "
             "contract does not describe -- the case 'intact object present, corrupt source, no existence check' is covered by the bounded "
             "stand-in transfer_faults.py only"],
    doc="ObjectDB.add: places (some of) the requested objects at oid_to_path(oid) via tmp-name + rename, removes nothing, creates "
        "nothing else that parses as an object; what is placed arrives unprotected unless it is a hard link to a write-protected source; "
        "on_error callbacks are not modelled here (they only touch the caller's state)",
)


def linked_from_protected(c):
    """the only case the clauses below do not cover: the objects are HARD LINKS and some source file is write-protected -- a link
    shares inode and mode with its source, so it arrives write-protected, and a local store trusts that mode (F-C07a)"""
    # "some source file is write-protected" = EXISTS i. path[i] in l444 at entry.  Kept opaque (an uninterpreted predicate of the
    # entry protection set and the source paths): no proof step needs to look inside, and the quantifier made 40 queries time out
    # (opaque also because caller and callee must name the same fact: it is a property of THIS call's sources, keyed by the source
    # filesystem object that both see unchanged)
    f = specfn.ufn("some_source_protected", z3.IntSort(), z3.BoolSort())
    return And(c.hardlink, SV(f(c.fs.t), TBool))


def crash_inv(c):
    """no mismatching object is ever write-protected unless it was so before the call.
    Claimed for copies and for hard links to sources that are not write-protected: a hard link shares the mode of its source, so a
    write-protected corrupt SOURCE yields a write-protected corrupt object -- observed as F-C07a, outside the statement (DESIGN A.4)."""
    return Or(linked_from_protected(c), _crash_inv(c))


def _crash_inv(c):
    o = SV(z3.String("o!ci"), TStr)
    path = c.h0.get("HashFileDB.path", c.self)
    good = first(cur(c.h0.get("HashFileDB.fs", c.self), c.h0.get("HashFileDB.hash_name", c.self), O(path, o))) == first(o)
    return SV(z3.ForAll([o.t], Implies(l444(c.h).contains(O(path, o)), Or(l444(c.h0).contains(O(path, o)), good)).t), TBool)


def _good_o(c, o):
    path = c.h0.get("HashFileDB.path", c.self)
    return first(cur(c.h0.get("HashFileDB.fs", c.self), c.h0.get("HashFileDB.hash_name", c.self), O(path, o))) == first(o)


def _verified_prefix(c, K, n):
    """objects whose post-copy check has run: present => matches its name or was write-protected before the call"""
    j = SV(z3.Int("j!vp"), TInt)
    path = c.h0.get("HashFileDB.path", c.self)
    return SV(z3.ForAll([j.t], Implies(And(j >= 0, j < n, c.loc.verify if hasattr(c.loc, "_d") and "verify" in c.loc else lift(True)),
                                       Implies(lfiles(c.h).contains(O(path, K[j].val)), Or(_good_o(c, K[j].val), l444(c.h0).contains(O(path, K[j].val))))).t), TBool)


def _add_common(c):
    return And(crash_inv(c), _sinv(c), lfiles(c.h0).subset(lfiles(c.h)).t if False else lift(True))


def _present_ok(c):
    """every requested object that is present is intact or was write-protected before the call"""
    j = SV(z3.Int("j!pk2"), TInt)
    path = c.h0.get("HashFileDB.path", c.self)
    return SV(z3.ForAll([j.t], Implies(And(j >= 0, j < c.oid.length(), lfiles(c.h).contains(O(path, c.oid[j].val))),
                                       Or(_good_o(c, c.oid[j].val), l444(c.h0).contains(O(path, c.oid[j].val)))).t, patterns=[c.oid[j].t]), TBool)


def _loop_pre(c):  # `for o in oids: check(o)` before the copy
    return And(crash_inv(c), _sinv(c), Or(_verify0(c), _present_ok(c)), lfiles(c.h).subset(lfiles(c.h0)))


def _loop_post(c):  # `for o, cache_path in oid_cache_paths.items()`: check then protect
    K = c.loc.oid_cache_paths.ty.keys(c.loc.oid_cache_paths)
    j = SV(z3.Int("j!lp"), TInt)
    path = c.h0.get("HashFileDB.path", c.self)
    ver = lift(c.engine.truth(c.loc.verify), TBool)
    done = SV(z3.ForAll([j.t], Implies(And(j >= 0, j < c.idx, ver, Not(linked_from_protected(c))),
                                       Implies(lfiles(c.h).contains(O(path, c.oid[j].val)), Or(_good_o(c, c.oid[j].val), l444(c.h0).contains(O(path, c.oid[j].val))))).t,
                       patterns=[c.oid[j].t]), TBool)
    same = SV(z3.ForAll([j.t], Implies(And(j >= 0, j < c.oid.length()), And(K[j] == c.oid[j], c.loc.oid_cache_paths[c.oid[j]] == O(path, c.oid[j].val))).t,
                       patterns=[c.oid[j].t, K[j].t]), TBool)
    return And(crash_inv(c), _sinv(c), Or(_verify0(c), _present_ok(c)), done, _readonly_prefix(c, c.idx))


def _readonly_prefix(c, n):
    """C01: objects added to a LOCAL store end up read-only (where the filesystem lets modes be changed): every requested
    object among the first n that is present is write-protected"""
    j = SV(z3.Int("j!ro"), TInt)
    path = c.h0.get("HashFileDB.path", c.self)
    return Implies(And(chmod_ok(), c.engine.dyn_class_is(c.self, "LocalHashFileDB")),
                   SV(z3.ForAll([j.t], Implies(And(j >= 0, j < n, lfiles(c.h).contains(O(path, c.oid[j].val))),
                                               l444(c.h).contains(O(path, c.oid[j].val))).t, patterns=[c.oid[j].t]), TBool))


def _all_some(K):
    j = SV(z3.Int("j!as"), TInt)
    return SV(z3.ForAll([j.t], Implies(And(j >= 0, j < K.length()), And(K[j].is_some, K[j].val.length() > 0)).t, patterns=[K[j].t]), TBool)


def _distinct_ids(c):
    i, j = z3.Int("i!di"), z3.Int("j!di")
    return SV(z3.ForAll([i, j], z3.Implies(z3.And(0 <= i, i < j, j < c.oid.length().t), c.oid[SV(i, TInt)].t != c.oid[SV(j, TInt)].t)), TBool)


def _hint_path(c):
    """inside the post-copy loop: the path handed to protect() is the path of the object just checked"""
    if "cache_path" not in c.loc:
        return lift(True)
    pth = O(c.h0.get("HashFileDB.path", c.self), c.loc.o.val)
    return And(c.loc.cache_path == pth,
               # ... and that object, if it is (or gets) write-protected, is intact or was protected before the call
               Or(linked_from_protected(c), Not(lift(c.engine.truth(c.loc.verify), TBool)), _good_o(c, c.loc.o.val), l444(c.h0).contains(pth)))


def _verify0(c):
    """the verify flag in force (entry state)"""
    present, kv = c.kwargs.items["verify"]
    return Ite(And(SV(present, TBool), kv.is_some), kv.val, c.h0.get("HashFileDB.verify", c.self))


def _verify_on(c):
    present, kv = c.kwargs.items["verify"]
    return Ite(And(SV(present, TBool), kv.is_some), kv.val, c.h.get("HashFileDB.verify", c.self))


def _add_post(c):
    o = SV(z3.String("o!ap"), TStr)
    j = SV(z3.Int("j!ap"), TInt)
    path = c.h0.get("HashFileDB.path", c.self)
    present, kv = c.kwargs.items["verify"]
    verify = Ite(And(SV(present, TBool), kv.is_some), kv.val, c.h0.get("HashFileDB.verify", c.self))
    return And(
        crash_inv(c),
        _readonly_prefix(c, c.oid.length()),
        # C07: a store configured to verify never retains a mismatching (unprotected) object after an add
        Implies(And(verify, Not(linked_from_protected(c))),
                SV(z3.ForAll([j.t], Implies(And(j >= 0, j < c.oid.length(), lfiles(c.h).contains(O(path, c.oid[j].val))),
                                            Or(_good_o(c, c.oid[j].val), l444(c.h0).contains(O(path, c.oid[j].val)))).t, patterns=[c.oid[j].t]), TBool)),
    )


REG.by_name.pop("dvc_data.hashfile.db:HashFileDB.add", None)
contract(
    f"{D}:HashFileDB.add",
    params=dict(self=HashFileDB, path=TList(TStr), fs=FileSystem, oid=OIDS, hardlink=TBool, callback=TOpt(Callback), check_exists=TBool,
                on_error=None, kwargs={"verify": TOpt(TBool)}),
    returns=TInt,
    requires=lambda c: And(
        c.path.length() == c.oid.length(),
        _all_some(c.oid),
        # Named (content addressing): every object is filed under the digest of the bytes at the path it is copied from --
        # or the store verifies what it receives (the verify clause of C07 quantifies over corrupt sources)
        Or(_named(c), _verify_on(c)),
    ),
    raises={"NotImplementedError": (None, None)},
    modifies=lambda c: [("G.lfiles",), ("G.l444",), ("HashFileDB.objs", c.self), ("FileSystem.files", None), ("FileSystem.removed", None), ("HashesCache.table", None)],
    locals=dict(),
    invariants={0: _loop_pre, 1: _loop_post},
    crash=crash_inv,
    hints={"HashFileDB.check": lambda c: _hint_path(c), "LocalHashFileDB.check": lambda c: _hint_path(c)},
    ensures=_add_post,
    # the body is verified for duplicate-free id lists (a dict comprehension keyed by the ids collapses duplicates; callers are
    # not asked to establish this: recorded restriction)
    entry_assume=lambda c: And(_distinct_ids(c), O_injective(), _local(c), _sinv(c), Or(_wf_requested(c), _verify_on(c))),
    assumes=['the requested ids are pairwise distinct (a dict comprehension keyed by the ids would collapse duplicates: recorded restriction)', 'the object path is injective in the id (C01: proved for the fan-out layout for ids of length >= 2)', 'the store sits on a local filesystem and its algorithm name is an algorithm name', 'StateInv holds at entry', 'WF(requested): a requested object already in the store is intact or write-protected -- or the store verifies'],
    props=["C07", "C15", "C01", "C11"],
    doc="order inside add: pre-copy check, copy, post-copy check, protect, then state rows; a mismatching object is never "
        "write-protected (crash condition after every mutating call) and, under verify, never retained",
)


def _wf_requested(c):
    """WF: a requested object that is already in the store is intact or write-protected (add() skips the copy and protects it)"""
    j = SV(z3.Int("j!wfp"), TInt)
    p_ = O(c.h.get("HashFileDB.path", c.self), c.oid[j].val)
    return SV(z3.ForAll([j.t], Implies(And(j >= 0, j < c.oid.length(), lfiles(c.h).contains(p_)), Or(_good_o(c, c.oid[j].val), l444(c.h).contains(p_))).t), TBool)


def _named(c):
    i = SV(z3.Int("i!nm"), TInt)
    return SV(z3.ForAll([i.t], Implies(And(i >= 0, i < c.path.length()),
                                       c.oid[i] == OStr.some(cur(c.fs, c.h.get("HashFileDB.hash_name", c.self), c.path[i]))).t), TBool)


from specs.state import State as _StateT, StateBase as _StateBase, StateNoop as _StateNoop  # noqa: E402
from pyvc.types import TTuple, TAbs  # noqa: E402

_Rows = TList(TTuple([TStr, HashInfo, TOpt(TAbs("Nothing"))]))
for _cls, _ref in (("State", _StateT), ("StateNoop", _StateNoop)):
    contract(
        f"dvc_data.hashfile.state:{_cls}.save_many", params=dict(self=_ref, items=_Rows, fs=FileSystem),
        modifies=lambda c: [("HashesCache.table", None)],
        assumed=True, verify=False,
        doc="[not verified; nothing is claimed about the rows add() writes] one transaction of upserts for the paths that exist",
    )

contract(
    f"{L}:LocalHashFileDB.handle_histories",
    params={},
    assumed=True, verify=False,
    bounded=("bounded/store_tamper.py", 200, 3000),
    props=["C07", "C12"],
    doc="[bounded only] what the per-call proofs of check / oids_exist cannot see: state a store handle keeps between calls, objects "
        "added through another handle, unusual mode bits -- histories of add / query / tamper / query on one handle",
)
