"""C07 / C15 / C01 (protection): integrity checks of object stores — db/__init__.py, db/local.py"""
import z3

import contracts.build  # noqa: F401
import contracts.checkout_obj  # noqa: F401
from contracts.build import cur
from contracts.state import _state_inv_of, now_info
from pyvc import specfn
from pyvc.contracts import REG, contract
from pyvc.interp import extern
from pyvc.types import SV, And, Implies, Ite, Not, Or, TBool, TInt, TList, TOpt, TRec, TStr, lift
from specs.heap import FileSystem, HashFileDB, LocalHashFileDB, O
from specs.records import HashInfo, Meta
from specs.state import FileInfo

OStr = TOpt(TStr)
HashFileObj = TRec("HashFile", fields=dict(path=TStr, fs=FileSystem, hash_info=HashInfo, oid=TStr))
D = "dvc_data.hashfile.db"
L = "dvc_data.hashfile.db.local"


def first(s):
    """s.split('.')[0] -- the raw digest of an id (spec function shared with the code's encoding)"""
    f = specfn.ufn("str_split", z3.StringSort(), z3.StringSort(), z3.SeqSort(z3.StringSort()))
    return SV(f(s.t, z3.StringVal("."))[0], TStr)


def lfiles(hv):
    return hv.G("lfiles")


def l444(hv):
    return hv.G("l444")


def P(c):  # path of the object named c.oid in the store c.self
    return O(c.h0.get("HashFileDB.path", c.self), c.oid)


def goodp(c, path=None):
    """the bytes at the object's path hash (under the store's algorithm) to the raw digest in its name"""
    p = path if path is not None else P(c)
    return first(cur(c.h0.get("HashFileDB.fs", c.self), c.h0.get("HashFileDB.hash_name", c.self), p)) == first(c.oid)


# ---------------- assumed leaf operations ----------------
contract(
    f"{D}:HashFileDB.get", params=dict(self=HashFileDB, oid=TStr), returns=HashFileObj,
    ensures=lambda c: And(c.result.path == O(c.h.get("HashFileDB.path", c.self), c.oid), c.result.fs == c.h.get("HashFileDB.fs", c.self),
                          c.result.oid == c.oid, c.result.hash_info == HashInfo.mk(name=OStr.some(c.h.get("HashFileDB.hash_name", c.self)), value=OStr.some(c.oid))),
    assumed=True, verify=False,
    doc="odb.get(oid): the HashFile (path = oid_to_path(oid), fs, HashInfo(hash_name, oid)) -- constructor of an external base class",
)
contract(
    "dvc_data.fsutils:_localfs_info", params=dict(path=TStr), returns=FileInfo,
    raises={"FileNotFoundError": (lambda c: Not(lfiles(c.h).contains(c.path)), None)},
    ensures=lambda c: And(lfiles(c.h).contains(c.path), c.result.mode.is_some, c.result.ino.is_some, c.result.mtime.is_some, c.result.size.is_some,
                          c.result.type.is_some, _local_now(c, c.path, c.result),
                          (S_IMODE(c.result.mode.val) == 292) == l444(c.h).contains(c.path)),
    assumed=True, verify=False,
    doc="os.stat of a local path: FileNotFoundError iff absent; permission bits are exactly 0o444 iff the path is in the ghost set l444",
)


@extern("ext:contextlib.suppress")
def _suppress(engine, args, kwargs, node, self_expr):
    from pyvc.builtins_ import CtxMgr

    names = [a[1] if isinstance(a, tuple) else getattr(a, "dotted", str(a)).split(".")[-1] for a in args]
    return CtxMgr(value=None, suppress=names)


def _local_now(c, path, info):
    """a stat taken through os.stat is THE current stat of that path on every local filesystem object"""
    r = SV(z3.Const("r!ln", z3.IntSort()), FileSystem)
    return SV(z3.ForAll([r.t], z3.Implies(c.h.get("FileSystem.is_local", r).t, info.t == now_info(r, path).t)), TBool)


def S_IMODE(m):
    return SV(specfn.ufn("S_IMODE", z3.IntSort(), z3.IntSort())(m.t), TInt)


@extern("ext:stat.S_IMODE")
def _s_imode(engine, args, kwargs, node, self_expr):
    return S_IMODE(lift(args[0], TInt))


# fs.remove(path) on a local filesystem also updates the os-level ghost
_rm = REG.get("ext:FileSystem.remove#one")
_rm_mod, _rm_ens, _rm_raises = _rm.modifies, _rm.ensures, _rm.raises
_rm.modifies = lambda c: _rm_mod(c) + [("G.lfiles",), ("G.l444",)]
_rm.ensures = lambda c: And(_rm_ens(c), lfiles(c.h) == lfiles(c.h0).remove(c.path), l444(c.h) == l444(c.h0).remove(c.path))
_rm_when0, _rm_post0 = _rm_raises["FileNotFoundError"]
_rm.raises = {"FileNotFoundError": (lambda c: Ite(c.h.get("FileSystem.is_local", c.self), Not(lfiles(c.h).contains(c.path)), _rm_when0(c)),
                                    lambda c: And(_rm_post0(c), lfiles(c.h) == lfiles(c.h0), l444(c.h) == l444(c.h0)))}

contract(
    f"{L}:LocalHashFileDB.protect", params=dict(self=HashFileDB, path=TStr),
    modifies=lambda c: [("G.l444",)],
    ensures=lambda c: And(l444(c.h).subset(l444(c.h0).add(c.path)), l444(c.h0).subset(l444(c.h)),
                          Implies(l444(c.h).contains(c.path), lfiles(c.h).contains(c.path))),
    assumed=True, verify=False,
    doc="os.chmod(path, 0o444), failures swallowed: at most this one path becomes protected; nothing is unprotected",
)
REG.by_name.pop("dvc_data.hashfile.db:HashFileDB.protect", None)
contract(f"{D}:HashFileDB.protect", params=dict(self=HashFileDB, path=TStr), assumed=True, doc="base class: no-op")

# hash_file as used by check(): the digest of the object's current bytes (C13/C14), FileNotFoundError iff the file is absent
_hf = REG.get("dvc_data.hashfile.hash:hash_file")
_hf_ens = _hf.ensures
_hf.ensures = lambda c: And(_hf_ens(c), Implies(c.h.get("FileSystem.is_local", c.fs), lfiles(c.h).contains(c.path)))
_hf.raises = dict(_hf.raises, FileNotFoundError=(lambda c: Implies(c.h.get("FileSystem.is_local", c.fs), Not(lfiles(c.h).contains(c.path))),
                                                  _hf.raises["FileNotFoundError"][1]))


_fi = REG.get("ext:FileSystem.info")
_fi_ens = _fi.ensures
_fi.ensures = lambda c: And(_fi_ens(c), c.result.type.is_some, Implies(c.h.get("FileSystem.is_local", c.self), lfiles(c.h).contains(c.path)))
_fi.raises = {"FileNotFoundError": (lambda c: Implies(c.h.get("FileSystem.is_local", c.self), Not(lfiles(c.h).contains(c.path))), None)}


# ---------------- HashFileDB.check ----------------
def _local(c):
    return c.h0.get("FileSystem.is_local", c.h0.get("HashFileDB.fs", c.self))


def _check_pre(c):
    return And(_local(c), _state_inv_of(c.h, c.h.get("HashFileDB.state", c.self)), c.oid.length() > 0,
               # a caller-supplied stat is the current stat of an existing object file
               Implies(c._info.is_some, And(c._info.val == now_info(c.h.get("HashFileDB.fs", c.self), P(c)), lfiles(c.h).contains(P(c)),
                                            c._info.val.ino.is_some, c._info.val.mtime.is_some, c._info.val.size.is_some, c._info.val.type.is_some,
                                            c._info.val.mode.is_some,
                                            (S_IMODE(c._info.val.mode.val) == 292) == l444(c.h).contains(P(c)))))


_check_raises = {
    # missing -> FileNotFoundError (nothing changes)
    "FileNotFoundError": (lambda c: Not(lfiles(c.h).contains(P(c))), lambda c: And(lfiles(c.h) == lfiles(c.h0), l444(c.h) == l444(c.h0))),
    # rejected -> the bytes do not match the name, and the object is gone afterwards
    "ObjectFormatError": (lambda c: And(c.check_hash, Not(goodp(c))), lambda c: And(Not(lfiles(c.h).contains(P(c))), lfiles(c.h) == lfiles(c.h0).remove(P(c)))),
}


def _check_post_base(c):
    return And(
        lfiles(c.h) == lfiles(c.h0),                     # an accepted object is not touched
        lfiles(c.h).contains(P(c)),
        Implies(c.check_hash, goodp(c)),                  # accepted after hashing => the bytes match the name
        l444(c.h0).subset(l444(c.h)), l444(c.h).subset(l444(c.h0).add(P(c))),
    )


contract(
    f"{D}:HashFileDB.check",
    params=dict(self=HashFileDB, oid=TStr, check_hash=TBool, _info=TOpt(FileInfo)),
    returns=Meta,
    requires=_check_pre,
    raises=_check_raises,
    modifies=lambda c: [("G.lfiles",), ("G.l444",), ("FileSystem.files", None), ("FileSystem.removed", None), ("HashesCache.table", None)],
    ensures=_check_post_base,
    props=["C07", "C15"],
    doc="re-hash (through the state cache), compare raw digests, delete on mismatch, protect on success",
)


def _check_post_local(c):
    return And(
        lfiles(c.h) == lfiles(c.h0), lfiles(c.h).contains(P(c)),
        # accepted => it was write-protected already (trusted without hashing) or its bytes match its name
        Or(l444(c.h0).contains(P(c)), Implies(c.check_hash, goodp(c))),
        # a successful (hashing) check leaves a local object read-only -- unless chmod failed (swallowed)
        l444(c.h0).subset(l444(c.h)), l444(c.h).subset(l444(c.h0).add(P(c))),
    )


contract(
    f"{L}:LocalHashFileDB.check",
    params=dict(self=LocalHashFileDB, oid=TStr, check_hash=TBool, _info=TOpt(FileInfo)),
    returns=Meta,
    requires=lambda c: And(_check_pre(c), c.engine.dyn_class_is(c.self, "LocalHashFileDB")),
    raises=_check_raises,
    modifies=lambda c: [("G.lfiles",), ("G.l444",), ("FileSystem.files", None), ("FileSystem.removed", None), ("HashesCache.table", None)],
    ensures=_check_post_local,
    lemmas={
        # an intact object is never rejected (the exceptional clause 'ObjectFormatError => not good' is the other half)
        "returned_unprotected_matches": lambda c: Implies(And(Not(l444(c.h0).contains(P(c))), c.check_hash), goodp(c)),
    },
    props=["C07", "C15"],
    doc="local store trusts only files whose mode is exactly the protected mode; everything else is re-hashed",
)

def _sinv(c):
    return _state_inv_of(c.h, c.h0.get("HashFileDB.state", c.self))


def _wrap_raises(q, local):
    con = REG.get(q)
    r = dict(con.raises)
    r["NotImplementedError"] = (None, lambda c: And(lfiles(c.h) == lfiles(c.h0), l444(c.h) == l444(c.h0), _sinv(c)))
    w_f, p_f = r["FileNotFoundError"]
    r["FileNotFoundError"] = (w_f, lambda c: And(p_f(c), _sinv(c)))
    w_o, p_o = r["ObjectFormatError"]
    if local:
        # a local store rejects only what was not write-protected
        r["ObjectFormatError"] = (lambda c: And(w_o(c), Not(l444(c.h0).contains(P(c)))), lambda c: And(p_o(c), _sinv(c), l444(c.h) == l444(c.h0).remove(P(c))))
    else:
        r["ObjectFormatError"] = (w_o, lambda c: And(p_o(c), _sinv(c), l444(c.h) == l444(c.h0).remove(P(c))))
    con.raises = r
    e = con.ensures
    con.ensures = lambda c: And(e(c), _sinv(c))


_wrap_raises(f"{D}:HashFileDB.check", False)
_wrap_raises(f"{L}:LocalHashFileDB.check", True)


# ---------------- LocalHashFileDB.oids_exist ----------------
@extern("ext:functools.partial")
def _partial(engine, args, kwargs, node, self_expr):
    return ("__partial__",) + tuple(args)


@extern("ext:dvc_objects.db.wrap_iter")
def _wrap_iter(engine, args, kwargs, node, self_expr):
    engine.res.drops.add("wrap_iter(it, callback) treated as the identity on the wrapped iterable (progress plumbing)")
    return args[0]


@extern("ext:dvc_objects.db.noop")
def _noop(engine, args, kwargs, node, self_expr):
    return None


def Pof(c, oid):
    return O(c.h0.get("HashFileDB.path", c.self), oid)


def good_oid(c, oid):
    return first(cur(c.h0.get("HashFileDB.fs", c.self), c.h0.get("HashFileDB.hash_name", c.self), Pof(c, oid))) == first(oid)


def _ret_ok(c, ret):
    k = SV(z3.Const("k!oe", z3.IntSort()), TInt)
    return SV(z3.ForAll([k.t], Implies(And(k >= 0, k < ret.length()),
                                       And(lfiles(c.h).contains(Pof(c, ret[k])),
                                           Or(l444(c.h0).contains(Pof(c, ret[k])), good_oid(c, ret[k])))).t), TBool)


def _kept(c):
    """objects that were write-protected are never removed by an existence query"""
    p = SV(z3.String("p!oe"), TStr)
    return SV(z3.ForAll([p.t], Implies(And(l444(c.h0).contains(p), lfiles(c.h0).contains(p)), lfiles(c.h).contains(p)).t), TBool)


def _prot_ok(c):
    """whatever is write-protected now either was so at entry or matches its name"""
    o = SV(z3.String("o!pk"), TStr)
    return SV(z3.ForAll([o.t], Implies(l444(c.h).contains(Pof(c, o)), Or(l444(c.h0).contains(Pof(c, o)), good_oid(c, o))).t), TBool)


def _oe_inv(c):
    return And(_ret_ok(c, c.loc.ret), _prot_ok(c), lfiles(c.h).subset(lfiles(c.h0)), l444(c.h0).inter(lfiles(c.h)).subset(l444(c.h)), _kept(c),
               _state_inv_of(c.h, c.h.get("HashFileDB.state", c.self)))


from specs.heap import O_injective  # noqa: E402

contract(
    f"{L}:LocalHashFileDB.oids_exist",
    params=dict(self=LocalHashFileDB, oids=TList(TStr), jobs=TOpt(TInt)),
    returns=TList(TStr),
    requires=lambda c: And(O_injective(), _local(c), c.engine.dyn_class_is(c.self, "LocalHashFileDB"),
                           _state_inv_of(c.h, c.h.get("HashFileDB.state", c.self)),
                           _all(c.oids, lambda o: o.length() > 0)),
    raises={"NotImplementedError": (None, None)},
    modifies=lambda c: [("G.lfiles",), ("G.l444",), ("FileSystem.files", None), ("FileSystem.removed", None), ("HashesCache.table", None)],
    locals=dict(ret=TList(TStr)),
    invariants={0: _oe_inv},
    ensures=lambda c: And(_ret_ok(c, c.result), _kept(c), lfiles(c.h).subset(lfiles(c.h0))),
    props=["C07", "C15"],
    doc="an existence query on a local store is an integrity check: every id returned is present and either was write-protected "
        "or matches its name; write-protected objects are never removed",
)


def _all(L, f):
    i = SV(z3.Const("i!al", z3.IntSort()), TInt)
    return SV(z3.ForAll([i.t], Implies(And(i >= 0, i < L.length()), f(L[i])).t), TBool)
