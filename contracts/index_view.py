"""C17: lazy loading / views — bounded stand-in only (see DESIGN)."""
from pyvc.contracts import contract

contract(
    "dvc_data.index.view:DataIndexView._iteritems",
    verify=False,
    bounded=("bounded/lazy_index.py", 150, 2000),
    props=["C17"],
    doc="same query sequence against the lazy and the expanded index; a view exposes exactly the keys satisfying a prefix-closed filter",
)

contract(
    "dvc_data.fs:DataFileSystem._get_fs_path",
    params={},
    assumed=True, verify=False,
    bounded=("bounded/index_fs.py", 100, 1500),
    props=["C17"],
    doc="[bounded only] the fs adaptor: file contents through cat_file / open / get_file are the bytes held in whichever configured "
        "storage has the object; ls agrees between the lazy and the expanded index",
)
