"""C17: lazy loading / views — bounded stand-in only (see DESIGN)."""
from pyvc.contracts import contract

contract(
    "dvc_data.index.view:DataIndexView._iteritems",
    verify=False,
    bounded=("bounded/lazy_index.py", 150, 2000),
    props=["C17"],
    doc="same query sequence against the lazy and the expanded index; a view exposes exactly the keys satisfying a prefix-closed filter",
)
