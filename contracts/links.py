"""C05, second sentence: link clean-up through the state database -- dvc_data/hashfile/state.py:298-334

    "only removes paths that it recorded itself, that the caller does not list as in use,
     and that have not been modified since they were recorded"
"""
import z3

from pyvc import specfn
from pyvc.contracts import contract
from pyvc.types import SV, And, ForAll, Implies, Not, Or, TBool, TInt, TList, TOpt, TSet, TStr, TTuple, TAbs, lift
from specs.heap import FileSystem
from specs.state import LinkRec, State
from contracts.checkout_obj import files, removed

S = "dvc_data.hashfile.state"


def J(a, b):
    f = specfn.ufn("os_path_join", z3.StringSort(), z3.StringSort(), z3.StringSort())
    return SV(f(a.t, b.t), TStr)


def ino_now(p):
    return SV(specfn.ufn("inode_now", z3.StringSort(), z3.IntSort())(p.t), TInt)


def tok_now(p):
    """the (mtime token, size) pair get_mtime_and_size computes for the path as it is now"""
    return SV(specfn.ufn("mtime_token_now", z3.StringSort(), z3.StringSort())(p.t), TStr)


contract("ext:os.path.join", params=dict(a=TStr, b=TStr), returns=TStr, ensures=lambda c: c.result == J(c.a, c.b), assumed=True, pure=True,
         doc="os.path.join(a, b) for two components (uninterpreted)")
contract("ext:dvc_objects.fs.system.inode", params=dict(path=TStr), returns=TInt, ensures=lambda c: c.result == ino_now(c.path), assumed=True, pure=True,
         doc="inode of the path as it is now")
contract(f"dvc_data.hashfile.utils:get_mtime_and_size", params=dict(path=TStr, fs=FileSystem, ignore=TOpt(TAbs("Ignore"))),
         returns=TTuple([TStr, TInt]), ensures=lambda c: c.result[0] == tok_now(c.path), assumed=True, verify=False, pure=True,
         doc="[not verified here] (token, size) of the path as it is now: ns mtime of a file, md5 over every file's mtime and path for a directory")


def links(hv, st):
    return hv.get("State.links", st)


def _unused_post(c):
    j = TInt.fresh("j!ul")
    L, r, root = links(c.h0, c.self), c.result, c.h0.get("State.root_dir", c.self)
    rp = r[j]
    p = J(root, rp)
    return And(
        Implies(Not(c.h0.get("FileSystem.is_local", c.fs)), r.length() == 0),
        ForAll([j], Implies(And(j >= 0, j < r.length()), And(
            c.engine.omap_dom(L).contains(rp),                     # recorded by the state itself
            Not(c.used.contains(p)),                               # not listed as in use
            files(c.h0, c.fs).contains(p),                         # still there
            L.ty.at(L, rp)[0] == ino_now(p), L.ty.at(L, rp)[1] == tok_now(p),   # not modified since it was recorded
        ))),
    )


def _inv_unused(c):
    j = TInt.fresh("j!iu")
    L, r, root = links(c.h0, c.self), c.loc.unused, c.h0.get("State.root_dir", c.self)
    rp = r[j]
    p = J(root, rp)
    return ForAll([j], Implies(And(j >= 0, j < r.length()), And(
        c.engine.omap_dom(L).contains(rp), Not(c.used.contains(p)), files(c.h0, c.fs).contains(p),
        L.ty.at(L, rp)[0] == ino_now(p), L.ty.at(L, rp)[1] == tok_now(p))))


contract(
    f"{S}:State.get_unused_links",
    params=dict(self=State, used=TSet(TStr), fs=FileSystem),
    returns=TList(TStr),
    requires=lambda c: c.engine.omap_wf(links(c.h, c.self)),
    invariants={0: _inv_unused},
    locals=dict(unused=TList(TStr)),
    modifies=lambda c: [],
    ensures=_unused_post,
    props=["C05"],
    doc="unused links: recorded by the state, not listed as in use, still present, and (inode, mtime token) as recorded",
)


def JS(root, U, n):
    """{os.path.join(root, U[k]) | k < n}: the paths handed to fs.remove after the first n given links (recursive spec function)"""
    if getattr(JS, "f", None) is None:
        JS.f = z3.RecFunction("joined_upto", z3.StringSort(), TList(TStr).sort(), z3.IntSort(), TSet(TStr).sort())
        r, k = z3.String("r!js"), z3.Int("k!js")
        u = SV(z3.Const("u!js", TList(TStr).sort()), TList(TStr))
        z3.RecAddDefinition(JS.f, [r, u.t, k], z3.If(k <= 0, z3.EmptySet(z3.StringSort()),
                                                     z3.SetAdd(JS.f(r, u.t, k - 1), J(SV(r, TStr), u[SV(k - 1, TInt)]).t)))
    return SV(JS.f(root.t, U.t, lift(n, TInt).t), TSet(TStr))


def js_monotone(c):
    """lemma over the spec function (induction on j - i; stated, not proved here): the set only grows with the prefix"""
    i, j = z3.Int("i!jm"), z3.Int("j!jm")
    root = c.h.get("State.root_dir", c.self)
    return SV(z3.ForAll([i, j], z3.Implies(z3.And(0 <= i, i <= j), z3.IsSubset(JS(root, c.unused, SV(i, TInt)).t, JS(root, c.unused, SV(j, TInt)).t))), TBool)


def _rm_post(c):
    R0, R = removed(c.h0, c.fs), removed(c.h, c.fs)
    root = c.h0.get("State.root_dir", c.self)
    loc = c.h0.get("FileSystem.is_local", c.fs)
    return And(Implies(Not(loc), R == R0),
               Implies(loc, R == R0.union(JS(root, c.unused, c.unused.length()))))   # exactly the given links, joined with root_dir


def _rm_exc(c):
    R0, R = removed(c.h0, c.fs), removed(c.h, c.fs)
    root = c.h0.get("State.root_dir", c.self)
    return And(R0.subset(R), R.subset(R0.union(JS(root, c.unused, c.unused.length()))))


def _inv_rm(c):
    R0, R = removed(c.h0, c.fs), removed(c.h, c.fs)
    return R == R0.union(JS(c.h0.get("State.root_dir", c.self), c.unused, c.idx))


contract(
    f"{S}:State.remove_links",
    params=dict(self=State, unused=TList(TStr), fs=FileSystem),
    raises={"FileNotFoundError": (None, _rm_exc), "KeyError": (None, _rm_post)},
    invariants={0: _inv_rm, 1: lambda c: removed(c.h, c.fs) == removed(c.h0, c.fs).union(JS(c.h0.get("State.root_dir", c.self), c.unused, c.unused.length()))},
    entry_assume=js_monotone,
    assumes=['lemma over the recursive spec set joined_upto (induction, not proved here): the set of joined paths only grows with the prefix length'],
    locals=dict(ref=State.fields["links"]),
    modifies=lambda c: [("FileSystem.files", c.fs), ("FileSystem.removed", c.fs), ("G.lfiles",), ("G.l444",)],
    ensures=_rm_post,
    props=["C05"],
    doc="removal deletes exactly the given links (root_dir joined with each given relative path) and nothing else; the links "
        "table is a value here: its deletions are not tracked",
)

contract(
    f"{S}:State.links_cleanup",
    params={},
    assumed=True, verify=False,
    bounded=("bounded/state_links.py", 300, 5000),
    props=["C05"],
    doc="[bounded only] histories of record/modify/replace/remove on tracked links, then get_unused_links + remove_links on a real state",
)


def _links_native(repo, con, fdef, ob, model):
    """replay driver for failed obligations of the two clean-up functions: the link histories run natively on the same tree"""
    import json
    import os
    import subprocess

    here = os.path.dirname(os.path.dirname(os.path.abspath(__file__)))
    out = {"kind": "native scenario suite (bounded/state_links.py): link clean-up oracle on a real state database", "reproduced": False}
    try:
        p = subprocess.run(["/venv/bin/python", os.path.join(here, "bounded", "state_links.py"), "1200"], capture_output=True, text=True,
                           env=dict(os.environ, PYVC_REPO_SRC=repo.src), timeout=300)
        rep = json.loads(p.stdout.strip().splitlines()[-1])
        out.update(scenarios_run=rep["evaluations"], failing=rep["failures"][:2], reproduced=bool(rep["n_failures"]))
    except Exception as e:  # noqa: BLE001
        out["detail"] = "scenario suite could not run: " + repr(e)
    return out


from pyvc.contracts import REG  # noqa: E402

REG.get(f"{S}:State.get_unused_links").replay = _links_native
REG.get(f"{S}:State.remove_links").replay = _links_native
