"""C19: three-way merge of directory listings.  dictdiffer's diff/patch are outside the verifier's reach; the property is
covered by a bounded stand-in that is exhaustive within its bound (3-key universe), labelled bounded."""
from pyvc.contracts import contract

contract(
    "dvc_data.hashfile.tree:_merge",
    verify=False,
    bounded=("bounded/tree_merge.py", 2500, 40000),
    props=["C19"],
    doc="returns exactly the three-way merge or raises MergeError; both argument orders agree; policy respected (bounded, exhaustive in thorough tier)",
)


# ---------------- the per-side policy check is within reach: _diff ----------------
import z3  # noqa: E402

from pyvc import specfn  # noqa: E402
from pyvc.types import SV, And, ForAll, Implies, Ite, Not, Or, TAbs, TBool, TInt, TList, TOMap, TOpt, TStr, TTuple  # noqa: E402

DiffItem = TTuple([TStr, TAbs("DiffPath"), TAbs("DiffChanges")])
Listing = TAbs("ListingDict")

contract(
    "ext:dictdiffer.diff",
    params=dict(first=Listing, second=Listing),
    returns=TList(DiffItem),
    assumed=True,
    doc="dictdiffer.diff(a, b): a finite sequence of (kind, path, changes) items (kinds: add / remove / change)",
)


def _policy(c, typ):
    truthy = And(c.allowed.is_some, c.allowed.val.length() > 0)
    return Ite(truthy, specfn.list_elems(c.allowed.val).contains(typ), typ == "add")


def _diff_post(c):
    i = SV(z3.Int("i!df"), TInt)
    return ForAll([i], Implies(And(i >= 0, i < c.result.length()), _policy(c, c.result[i][0])))


contract(
    "dvc_data.hashfile.tree:_diff",
    params=dict(ancestor=Listing, other=Listing, allowed=TOpt(TList(TStr))),
    returns=TList(DiffItem),
    raises={"MergeError": (None, None)},
    invariants={0: lambda c: ForAll([SV(z3.Int("j!df"), TInt)], Implies(And(SV(z3.Int("j!df"), TInt) >= 0, SV(z3.Int("j!df"), TInt) < c.idx),
                                                                      _policy(c, c.seq[SV(z3.Int("j!df"), TInt)][0])))},
    ensures=_diff_post,
    props=["C19"],
    doc="a side's diff is returned only if EVERY operation kind in it is allowed (default policy: additions only); otherwise MergeError",
)
