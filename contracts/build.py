"""C01 / C02 / C03 (staging): dvc_data/hashfile/build.py"""
import z3

import contracts.state  # noqa: F401
from pyvc import specfn
from pyvc.contracts import contract
from pyvc.types import SV, And, ForAll, Implies, Ite, Not, Or, TBool, TInt, TList, TOMap, TOpt, TStr, TTuple, lift
from contracts.state import _state_inv_of, now_info
from specs.heap import Callback, FileSystem, HashFileDB
from specs.records import HashInfo, Meta
from specs.state import CK_info, HT, FileInfo, StateBase

M = "dvc_data.hashfile.build"
OStr = TOpt(TStr)
Infos = TOMap(TStr, FileInfo)
Hashes = TOMap(TStr, TTuple([Meta, HashInfo, FileInfo]))


def cur(fs, name, path):
    """hash of the current bytes of the file at `path` under `name`"""
    return HT(name, path, CK_info(now_info(fs, path)))


def wf(c, m):
    return c.engine.omap_wf(m)


def dom(c, m):
    return c.engine.omap_dom(m)


def all_i(n, f):
    i = TInt.fresh("i!b")
    return ForAll([i], Implies(And(i >= 0, i < n), f(i)))


# ---------------- _get_hashes ----------------
def _gh_post(c):
    r = c.result
    return And(
        wf(c, r),
        all_i(c.paths.length(), lambda i: And(
            dom(c, r).contains(c.paths[i]),
            r[c.paths[i]][1].name == OStr.some(c.name),
            r[c.paths[i]][1].value == OStr.some(cur(c.fs, c.name, c.paths[i])),
            cur(c.fs, c.name, c.paths[i]).length() > 0,
        )),
        Implies(c.state.is_some, _state_inv_of(c.h, c.state.val)),
    )


contract(
    f"{M}:_get_hashes",
    params=dict(paths=TList(TStr), fs=FileSystem, name=TStr, infos=Infos, state=TOpt(StateBase), callback=TOpt(Callback), jobs=TOpt(TInt),
                large_file_threshold=TInt),
    returns=Hashes,
    requires=lambda c: And(wf(c, c.infos), all_i(c.paths.length(), lambda i: dom(c, c.infos).contains(c.paths[i])),
                           Implies(c.state.is_some, _state_inv_of(c.h, c.state.val))),
    modifies=lambda c: [("HashesCache.table", None)],
    ensures=_gh_post,
    verify=False,
    assumed=True,
    bounded=("bounded/state_hashes.py", 40, 600),
    props=["C13", "C03", "C05", "C10"],  # checkout re-stages the workspace through it (C05, C10)
    doc="[body not verified: bounded stand-in] for every requested path the returned dict holds the hash of that very path under `name` "
        "(state hits and fresh hashes merged by path); nothing is said about the ORDER of the returned dict",
)

# ---------------- _build_files ----------------
def _path_of(c, fname):
    return Ite(And(c.root.is_some, c.root.val.length() > 0), c.root.val + c.h0.get("FileSystem.sep", c.fs) + fname, fname)


def _bf_post(c):
    K = c.file_infos.ty.keys(c.file_infos)
    r = c.result
    return And(
        all_i(K.length(), lambda i: And(
            dom(c, r).contains(K[i]),
            r[K[i]][1].name == OStr.some(c.name),
            # each file name is paired with the digest of that very file
            r[K[i]][1].value == OStr.some(cur(c.fs, c.name, _path_of(c, K[i]))),
        )),
        r.ty.keys(r).length() == K.length(),
    )


contract(
    f"{M}:_build_files",
    params=dict(root=OStr, file_infos=Infos, fs=FileSystem, name=TStr, odb=TOpt(HashFileDB), callback=TOpt(Callback), upload_odb=None,
                dry_run=TBool, jobs=TOpt(TInt), large_file_threshold=TInt),
    returns=TOMap(TStr, TTuple([Meta, HashInfo])),
    requires=lambda c: And(
        wf(c, c.file_infos),
        Implies(Not(c.dry_run), c.odb.is_some),
        Implies(c.odb.is_some, And(_state_inv_of(c.h, c.h.get("HashFileDB.state", c.odb.val)),
                                   c.name == c.h.get("HashFileDB.hash_name", c.odb.val))),
    ),
    raises={"NotImplementedError": (None, None)},
    modifies=lambda c: [("HashFileDB.objs", None), ("HashesCache.table", None), ("G.lfiles",), ("G.l444",), ("FileSystem.files", None), ("FileSystem.removed", None)],
    ensures=_bf_post,
    no_merge=True,
    props=["C01", "C02", "C03", "C05", "C10"],
    doc="staging a directory's files: every file name is recorded with the digest of that very file, and the (path, oid) "
        "pairs handed to add() are aligned (Named is a call-site obligation)",
)

contract(
    "dvc_data.hashfile.db.migrate:prepare",
    params={},
    assumed=True, verify=False,
    bounded=("bounded/migrate_store.py", 60, 1500),
    props=["C01"],
    doc="[bounded only] migration (thread pool + partial application: outside the verifier's reach): every migrated object is filed "
        "under the digest of its own bytes under the DESTINATION's algorithm",
)

contract(
    "dvc_data.hashfile.build:_build_tree",
    params={},
    assumed=True, verify=False,
    bounded=("bounded/roundtrip.py", 120, 2000),
    props=["C02", "C05", "C10"],  # checkout re-stages the workspace through build() (C05, C10)
    doc="[bounded only] the end-to-end clause: stage -> transfer -> check out (object-level and index-level, every link type, both store "
        "classes, state on/off) recreates the relative paths and bytes; the reloaded listing, file count and size match",
)
