"""C17 / C18: how a file-backed storage addresses index keys -- dvc_data/index/index.py:FileStorage.__init__"""
from pyvc.contracts import contract
from pyvc.types import And, Ite, TAbs, TBool, TKey, TOpt, TRef, TStr
from specs.heap import FileSystem

FileStorage = TRef("FileStorage", fields=dict(key=TKey, prefix=TKey, read_only=TBool, _fs=FileSystem, _path=TStr, index=TOpt(TAbs("DataIndex"))),
                   qualname="dvc_data.index.index:FileStorage")

contract(
    "dvc_data.index.index:FileStorage.__init__",
    params=dict(self=FileStorage, key=TKey, fs=FileSystem, path=TStr, index=TOpt(TAbs("DataIndex")), prefix=TOpt(TKey), read_only=TBool),
    modifies=lambda c: [("FileStorage.key", c.self), ("FileStorage.prefix", c.self), ("FileStorage.read_only", c.self), ("FileStorage._fs", c.self),
                        ("FileStorage._path", c.self), ("FileStorage.index", c.self)],
    ensures=lambda c: And(
        # the keys of this storage are addressed relative to `prefix`; an explicitly given prefix -- the empty one included
        # ("address this storage from the index root") -- is kept, only an absent one defaults to the storage's own key
        c.h.get("FileStorage.prefix", c.self) == Ite(c.prefix.is_some, c.prefix.val, c.key),
        c.h.get("FileStorage.key", c.self) == c.key,
        c.h.get("FileStorage._path", c.self) == c.path,
        c.h.get("FileStorage._fs", c.self) == c.fs,
    ),
    props=["C17", "C18"],
    doc="FileStorage(key, fs, path, prefix=p): prefix is p whenever p is given (also the empty tuple), else key",
)
