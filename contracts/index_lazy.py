"""C17: 'load once, mark loaded, re-store entry' -- dvc_data/index/index.py:DataIndex._load
A directory entry is marked loaded (and re-stored) only when its listing was actually materialised; a failed load that the
error callback swallows leaves the index exactly as it was, so that a later access tries again."""
import z3

from contracts.index_load import Trie
from contracts.index_md5 import StorageMapping
from pyvc import specfn
from pyvc.contracts import contract
from pyvc.types import SV, And, Implies, Not, Or, TAbs, TBool, TKey, TOpt, TRef
from specs.records import DataIndexEntry

StorageInfo = TAbs("StorageInfo")
LazyIndex = TRef("LazyDataIndex", fields=dict(_trie=Trie, storage_map=StorageMapping), qualname="dvc_data.index.index:DataIndex")


def load_ok(trie, entry, info):
    """whether some configured storage can deliver the listing of `entry` right now (environment)"""
    f = specfn.ufn("dir_load_ok", z3.IntSort(), DataIndexEntry.sort(), StorageInfo.sort(), z3.BoolSort())
    return SV(f(trie.t, entry.t, info.t), TBool)


def smget(smap, key):
    f = specfn.ufn("storage_map_get", z3.IntSort(), TKey.sort(), TOpt(StorageInfo).sort())
    return SV(f(smap.t, key.t), TOpt(StorageInfo))


def _map(hv, trie):
    return hv.get("Trie.map", trie)


contract("ext:collections.abc.MutableMapping.get", params=dict(self=StorageMapping, key=TKey), returns=TOpt(StorageInfo),
         ensures=lambda c: c.result == smget(c.self, c.key),
         assumed=True, verify=False, doc="storage_map.get(key): the storage info registered for the longest prefix of key, or None")
contract("dvc_data.index.index:_load_from_storage", params=dict(trie=Trie, entry=DataIndexEntry, storage_info=StorageInfo), returns=TBool,
         raises={"DataIndexDirError": (lambda c: Not(load_ok(c.trie, c.entry, c.storage_info)), lambda c: _map(c.h, c.trie) == _map(c.h0, c.trie))},
         modifies=lambda c: [("Trie.map", c.trie)],
         ensures=lambda c: load_ok(c.trie, c.entry, c.storage_info),
         assumed=True, verify=False,
         doc="[bounded: index_load.py] materialises the children from the first storage that can deliver the listing; if none can it "
             "raises DataIndexDirError and has added nothing")
contract("ext:abc.ABC.onerror", params=dict(self=LazyIndex, entry=DataIndexEntry, exc=None),
         raises={"DataIndexDirError": (None, None)},
         assumed=True, doc="the error callback installed on the index: it raises (the default) or returns (as DVC installs for ls / status); "
                           "it does not touch the index")
contract("ext:Trie.__delitem__", params=dict(self=Trie, key=TKey),
         modifies=lambda c: [("Trie.map", c.self)],
         ensures=lambda c: SV(z3.ForAll([z3.Const("k!td", TKey.sort())], z3.Implies(z3.Const("k!td", TKey.sort()) != c.key.t, z3.And(
             _map(c.h, c.self).contains(SV(z3.Const("k!td", TKey.sort()), TKey)).t == _map(c.h0, c.self).contains(SV(z3.Const("k!td", TKey.sort()), TKey)).t,
             _map(c.h, c.self)[SV(z3.Const("k!td", TKey.sort()), TKey)].t == _map(c.h0, c.self)[SV(z3.Const("k!td", TKey.sort()), TKey)].t))), TBool),
         assumed=True, doc="del trie[key]: the other keys keep their values")
contract("ext:Trie.commit", params=dict(self=Trie), assumed=True, doc="trie.commit(): persists, no change of the mapping")


def _post(c):
    trie = c.h0.get("LazyDataIndex._trie", c.self)
    unchanged = _map(c.h, trie) == _map(c.h0, trie)
    return And(
        # nothing to do: no entry, already loaded, not a directory, no storage registered
        Implies(Or(c.entry.is_none, And(c.entry.is_some, Or(c.entry.val.loaded == TOpt(TBool).some(True),
                                                            c.entry.val.meta.is_none, Not(c.entry.val.meta.val.isdir)))), unchanged),
        # after a normal return the entry stored under `key` is marked loaded ONLY IF the listing could be materialised
        Implies(And(_map(c.h, trie).contains(c.key), _map(c.h, trie)[c.key].loaded == TOpt(TBool).some(True),
                    Not(And(_map(c.h0, trie).contains(c.key), _map(c.h0, trie)[c.key].loaded == TOpt(TBool).some(True)))),
                And(c.entry.is_some, smget(c.h0.get("LazyDataIndex.storage_map", c.self), c.key).is_some,
                    load_ok(trie, c.entry.val, smget(c.h0.get("LazyDataIndex.storage_map", c.self), c.key).val))),
    )


contract(
    "dvc_data.index.index:DataIndex._load",
    params=dict(self=LazyIndex, key=TKey, entry=TOpt(DataIndexEntry)),
    raises={"DataIndexDirError": (None, lambda c: _map(c.h, c.h0.get("LazyDataIndex._trie", c.self)) == _map(c.h0, c.h0.get("LazyDataIndex._trie", c.self)))},
    modifies=lambda c: [("Trie.map", c.h0.get("LazyDataIndex._trie", c.self))],
    ensures=_post,
    props=["C17"],
    doc="a directory entry is re-stored as loaded only after its listing was materialised; a failed load reported through a non-raising "
        "error callback leaves the index unchanged (a later access tries again); a raising callback leaves it unchanged too",
)
