"""C06: garbage collection — dvc_data/hashfile/gc.py"""
import z3

import contracts.transfer  # noqa: F401  (Tree contracts)
from pyvc import specfn
from pyvc.contracts import REG, contract
from pyvc.interp import extern
from pyvc.types import SV, And, Exists, ForAll, Implies, Ite, Not, Or, TBool, TInt, TList, TOpt, TSeq, TSet, TStr, lift
from specs.heap import FileSystem, HashFileDB, Tree, o2p
from specs.records import HashInfo

OStr = TOpt(TStr)
USet = TSet(OStr)


@extern("ext:dvc_data.hashfile._progress.QueryingProgress")
def _querying_progress(engine, args, kwargs, node, self_expr):
    engine.res.drops.add("QueryingProgress(it, ...) treated as the identity on the wrapped iterable")
    return args[0]


def tree_vals(h):
    """{e.hash_info.value for e in listing of directory object h} (a function of the id)"""
    f = specfn.ufn("tree_vals", HashInfo.sort(), USet.sort())
    return SV(f(h.t), USet)


# value-level view of a loaded tree (added to the assumed Tree.load contract)
_tl = REG.get("dvc_data.hashfile.tree:Tree.load")
_old_ens = _tl.ensures
_tl.ensures = lambda c: And(_old_ens(c), specfn.setcomp("hash_info.value for _, _, hash_info in X", c.h.get("Tree.entries", c.result), OStr) == tree_vals(c.hash_info))


def isdir_val(v):  # Optional[str] ends with '.dir'
    return v.is_some & SV(z3.SuffixOf(z3.StringVal(".dir"), v.val.t), TBool)


def step(c, h):
    """what one used id contributes to the used set (statement: ids of another algorithm are ignored; used directories are expanded when asked)"""
    name = OStr.some(c.h0.get("HashFileDB.hash_name", c.odb))
    own = USet.empty().add(h.value)
    exp = Ite(And(isdir_val(h.value), Not(c.shallow)), tree_vals(h), USet.empty())
    return Ite(h.name == name, own.union(exp), USet.empty())


def U_upto(c, n):
    """used set after the first n used ids (recursive spec function, unfolded by the solver)"""
    if getattr(U_upto, "f", None) is None:
        U_upto.f = z3.RecFunction("U_upto", TSeq(HashInfo).sort(), z3.IntSort(), z3.StringSort(), z3.BoolSort(), USet.sort())
        f = U_upto.f
        sq = SV(z3.Const("sq!U", TSeq(HashInfo).sort()), TSeq(HashInfo))
        k = z3.Int("k!U")
        nm = z3.String("nm!U")
        sh = z3.Bool("sh!U")
        h = sq[SV(k - 1, TInt)]
        own = USet.empty().add(h.value)
        exp = Ite(And(isdir_val(h.value), Not(SV(sh, TBool))), tree_vals(h), USet.empty())
        st = Ite(h.name == OStr.some(SV(nm, TStr)), own.union(exp), USet.empty())
        z3.RecAddDefinition(f, [sq.t, k, nm, sh], z3.If(k <= 0, USet.empty().t, z3.SetUnion(f(sq.t, k - 1, nm, sh), st.t)))
    return SV(U_upto.f(c.used.t, lift(n, TInt).t, c.h0.get("HashFileDB.hash_name", c.odb).t, c.shallow.t), USet)


def cnt_upto(A, U, n):
    """number of i < n with A[i] not in U"""
    if getattr(cnt_upto, "f", None) is None:
        cnt_upto.f = z3.RecFunction("cnt_unused", TList(TStr).sort(), USet.sort(), z3.IntSort(), z3.IntSort())
        f = cnt_upto.f
        a = SV(z3.Const("a!cnt", TList(TStr).sort()), TList(TStr))
        u = SV(z3.Const("u!cnt", USet.sort()), USet)
        k = z3.Int("k!cnt")
        inU = u.contains(OStr.some(a[SV(k - 1, TInt)]))
        z3.RecAddDefinition(f, [a.t, u.t, k], z3.If(k <= 0, z3.IntVal(0), f(a.t, u.t, k - 1) + z3.If(inU.t, 0, 1)))
    return SV(cnt_upto.f(A.t, U.t, lift(n, TInt).t), TInt)


def card_unused(S, U):
    """|{h in S : h.value not in U}| (spec function; tied to enumerations by the count_filter lemma)"""
    f = specfn.ufn("card_unused", TSet(HashInfo).sort(), USet.sort(), z3.IntSort())
    return SV(f(S.t, U.t), TInt)


def in_list(L, x):
    i = TInt.fresh("i!in")
    return Exists([i], And(i >= 0, i < L.length(), L[i] == x))


def objs(hv, odb):
    return hv.get("HashFileDB.objs", odb)


from specs.heap import O, O_def, O_injective  # noqa: E402


contract(
    "dvc_data.hashfile.db.local:LocalHashFileDB.oid_to_path",
    params=dict(self=HashFileDB, oid=TStr),
    returns=TStr,
    entry_assume=lambda c: O_def(),
    assumes=['O(path, oid), the object path used in specifications, is by definition the layout <path>/<oid[:2]>/<oid[2:]>'],
    ensures=lambda c: c.result == O(c.h.get("HashFileDB.path", c.self), c.oid),
    props=["C01", "C06"],
    doc="local stores use the same <path>/<oid[:2]>/<oid[2:]> layout (os.sep taken as '/')",
)


# ---------------- assumed store / filesystem operations ----------------
contract(
    "ext:dvc_objects.db.ObjectDB.all",
    params=dict(self=HashFileDB, jobs=TOpt(TInt)),
    returns=TList(TStr),
    ensures=lambda c: And(
        _distinct(c.result),
        # every object of the store is named with the store's algorithm and is enumerated ...
        ForAll([_h()], Implies(objs(c.h, c.self).contains(_h()),
                               And(_h().name == OStr.some(c.h.get("HashFileDB.hash_name", c.self)), _h().value.is_some, in_list(c.result, _h().value.val)))),
        # count_filter (lemmas/count_filter.lean): over a duplicate-free enumeration, counting the ids outside U
        # gives the cardinality of {h in objs : h.value not in U}
        SV(z3.ForAll([_u().t], cnt_upto(c.result, _u(), c.result.length()).t == card_unused(objs(c.h, c.self), _u()).t,
                     patterns=[cnt_upto(c.result, _u(), c.result.length()).t]), TBool),
        # ... and everything enumerated is an object of the store
        ForAll([_i()], Implies(And(_i() >= 0, _i() < c.result.length()),
                               objs(c.h, c.self).contains(HashInfo.mk(name=OStr.some(c.h.get("HashFileDB.hash_name", c.self)), value=OStr.some(c.result[_i()]))))),
    ),
    assumed=True,
    doc="ObjectDB.all(): a duplicate-free enumeration of the ids of the objects in the store",
)


def _i():
    return SV(z3.Const("i!all", z3.IntSort()), TInt)


def _u():
    return SV(z3.Const("u!all", USet.sort()), USet)


def _h():
    return SV(z3.Const("h!all", HashInfo.sort()), HashInfo)


def _distinct(L):
    i, j = TInt.fresh("i!d"), TInt.fresh("j!d")
    return ForAll([i, j], Implies(And(i >= 0, i < j, j < L.length()), L[i] != L[j]))


def _remove_post(c):
    d = SV(z3.Const("d!rm", z3.IntSort()), HashFileDB)
    h = HashInfo.fresh("h!rm")
    o0, o1 = c.h0.raw("HashFileDB.objs"), c.h.raw("HashFileDB.objs")
    gone = specfn.list_elems(c.paths).contains(O(c.h0.get("HashFileDB.path", d), h.value.val))
    same_fs = c.h0.get("HashFileDB.fs", d) == c.self
    return ForAll([d, h], Implies(c.h0.allocated(d),
                                  SV(z3.Select(z3.Select(o1, d.t), h.t), TBool) ==
                                  And(SV(z3.Select(z3.Select(o0, d.t), h.t), TBool), Not(And(same_fs, h.value.is_some, gone)))))


contract(
    "ext:FileSystem.remove",
    params=dict(self=FileSystem, paths=TList(TStr)),
    modifies=lambda c: [("HashFileDB.objs", None)],
    ensures=_remove_post,
    assumed=True,
    doc="fs.remove(paths): exactly the objects stored at those paths disappear from every store on that filesystem; nothing else changes",
)
contract(
    "dvc_data.hashfile.db:HashFileDB._remove_unpacked_dir",
    params=dict(self=HashFileDB, hash_=TStr),
    modifies=lambda c: [("HashFileDB.nonobj_removals", c.self)],
    ensures=lambda c: c.h.get("HashFileDB.nonobj_removals", c.self) == c.h0.get("HashFileDB.nonobj_removals", c.self) + 1,
    assumed=True,
    doc="base class: no-op (LocalHashFileDB removes a legacy '<oid>.dir.unpacked' directory, which is not an object)",
)
contract(
    "dvc_data.hashfile.db.local:LocalHashFileDB._remove_unpacked_dir",
    params=dict(self=HashFileDB, hash_=TStr),
    modifies=lambda c: [("HashFileDB.nonobj_removals", c.self)],
    ensures=lambda c: c.h.get("HashFileDB.nonobj_removals", c.self) == c.h0.get("HashFileDB.nonobj_removals", c.self) + 1,
    assumed=True,
    verify=False,
    doc="removes the legacy '<oid>.dir.unpacked' directory next to a directory object: not an object of the store "
        "(NB it runs even when gc is a dry run: see DESIGN F-C06b)",
)


# ---------------- gc ----------------
def _U(c):
    return U_upto(c, c.used.length())


def _loop0_inv(c):
    return And(c.loc.used_hashes == U_upto(c, c.idx),
               Implies(c.cache_odb.is_some, c.loc.cache_odb == c.cache_odb.val), Implies(c.cache_odb.is_none, c.loc.cache_odb == c.odb),
               objs(c.h, c.odb) == objs(c.h0, c.odb))


def PS_upto(c, n):
    """set of paths collected after visiting the first n enumerated ids: those not in the used set"""
    if getattr(PS_upto, "f", None) is None:
        PS_upto.f = z3.RecFunction("PS_upto", TList(TStr).sort(), USet.sort(), z3.StringSort(), z3.IntSort(), TSet(TStr).sort())
        a = SV(z3.Const("a!ps", TList(TStr).sort()), TList(TStr))
        u = SV(z3.Const("u!ps", USet.sort()), USet)
        p = SV(z3.String("p!ps"), TStr)
        k = z3.Int("k!ps")
        x = a[SV(k - 1, TInt)]
        prev = PS_upto.f(a.t, u.t, p.t, k - 1)
        z3.RecAddDefinition(PS_upto.f, [a.t, u.t, p.t, k],
                            z3.If(k <= 0, z3.EmptySet(z3.StringSort()), z3.If(u.contains(OStr.some(x)).t, prev, z3.SetAdd(prev, O(p, x).t))))
    return SV(PS_upto.f(c.seq.t if n is not None else None, _U(c).t, c.h0.get("HashFileDB.path", c.odb).t, lift(n, TInt).t), TSet(TStr))


def _loop1_inv(c):
    A = c.seq
    U = _U(c)
    j = TInt.fresh("j!g")
    path = c.h0.get("HashFileDB.path", c.odb)
    collected = specfn.list_elems(c.loc.dir_paths).union(specfn.list_elems(c.loc.file_paths))
    return And(
        c.loc.used_hashes == U,
        c.loc.num_removed == 0,
        collected == PS_upto(c, c.idx),
        (c.loc.dir_paths.length() == 0) == (specfn.list_elems(c.loc.dir_paths) == TSet(TStr).empty()),
        (c.loc.file_paths.length() == 0) == (specfn.list_elems(c.loc.file_paths) == TSet(TStr).empty()),
        c.loc.dir_paths.length() >= 0, c.loc.file_paths.length() >= 0,
        # the path of an enumerated object has been collected iff the object was visited and is not used
        SV(z3.ForAll([j.t], Implies(And(j >= 0, j < A.length()),
                                    PS_upto(c, c.idx).contains(O(path, A[j])) == And(j < c.idx, Not(U.contains(OStr.some(A[j]))))).t,
                     patterns=[A[j].t]), TBool),
        c.loc.dir_paths.length() + c.loc.file_paths.length() == cnt_upto(A, U, c.idx),
        objs(c.h, c.odb) == objs(c.h0, c.odb),
        c.h.raw("HashFileDB.objs") == c.h0.raw("HashFileDB.objs"),
        Implies(c.dry, c.h.raw("HashFileDB.nonobj_removals") == c.h0.raw("HashFileDB.nonobj_removals")),
    )


def _gc_post(c):
    U = _U(c)
    h = HashInfo.fresh("h!gc")
    o0, o1 = objs(c.h0, c.odb), objs(c.h, c.odb)
    kept = And(o0.contains(h), U.contains(h.value))
    return And(
        c.result == card_unused(o0, U),  # the count of the objects that are (or, dry, would be) removed
        Implies(c.dry, c.h.raw("HashFileDB.objs") == c.h0.raw("HashFileDB.objs")),
        Implies(c.dry, c.h.raw("HashFileDB.nonobj_removals") == c.h0.raw("HashFileDB.nonobj_removals")),  # a dry run removes nothing at all
        # exactly the unused objects are removed (stated as three implications: one query each)
        Implies(Not(c.dry), ForAll([h], Implies(o1.contains(h), o0.contains(h)))),
        Implies(Not(c.dry), ForAll([h], Implies(kept, o1.contains(h)))),
        Implies(Not(c.dry), ForAll([h], Implies(o1.contains(h), U.contains(h.value)))),
    )


contract(
    "dvc_data.hashfile.gc:gc",
    params=dict(odb=HashFileDB, used=TSeq(HashInfo), jobs=TOpt(TInt), cache_odb=TOpt(HashFileDB), shallow=TBool, dry=TBool),
    returns=TInt,
    requires=lambda c: O_injective(),
    # what the proof cannot see: `used` is modelled as a sequence (a one-shot iterator passed as `used` is not), legacy directories on disk
    bounded=("bounded/gc_inputs.py", 1, 1),
    raises={
        "ObjectDBPermissionError": (lambda c: c.h.get("HashFileDB.read_only", c.odb), lambda c: c.h.raw("HashFileDB.objs") == c.h0.raw("HashFileDB.objs")),
        "FileNotFoundError": (lambda c: Not(c.shallow), lambda c: c.h.raw("HashFileDB.objs") == c.h0.raw("HashFileDB.objs")),
    },
    modifies=lambda c: [("HashFileDB.objs", None), ("HashFileDB.nonobj_removals", None)],
    locals=dict(used_hashes=USet, dir_paths=TList(TStr), file_paths=TList(TStr)),
    invariants={0: _loop0_inv, 1: _loop1_inv},
    no_merge=True,
    ensures=_gc_post,
    lemmas={"refuses_read_only": lambda c: Not(c.h0.get("HashFileDB.read_only", c.odb))},
    props=["C06"],
    doc="removes exactly the objects whose id is not in the used set (expanded when asked); dry run removes nothing; read-only refused",
)


def _gc_native(repo, con, fdef, ob, model):
    import json
    import os
    import subprocess

    here = os.path.dirname(os.path.dirname(os.path.abspath(__file__)))
    out = {"kind": "native scenario suite (replay/gc_scenarios.py): independent set-difference oracle on real stores", "reproduced": False}
    try:
        p = subprocess.run(["/venv/bin/python", os.path.join(here, "replay", "gc_scenarios.py")], capture_output=True, text=True,
                           env=dict(os.environ, PYVC_REPO_SRC=repo.src), timeout=300)
        reps = json.loads(p.stdout)
        bad = [r for r in reps if "violation" in r]
        out.update(scenarios_run=len(reps), failing=bad[:3], reproduced=bool(bad))
    except Exception as e:  # noqa: BLE001
        out["detail"] = "scenario suite could not run: " + repr(e)
    return out


REG.get("dvc_data.hashfile.gc:gc").replay = _gc_native
