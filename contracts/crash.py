"""C15 (operation level): crash at every filesystem mutation of staging / adding / transferring / saving, then re-run.

The per-function crash conditions are proved where the functions are under contract (HashFileDB.add: no mismatching object is
ever write-protected, after every mutating call; _do_transfer: the destination stays closed after every mutating call).  The
operations as a whole -- index save(), build(), the upload path, and the dependency's tmp-name + rename protocol -- are not within
the verifier's reach; this module registers the bounded stand-in for them (labelled bounded, never counted as proved).
"""
from pyvc.contracts import contract

contract(
    "dvc_data.index.save:save.crash_sweep",
    params={},
    assumed=True, verify=False,
    bounded=("bounded/crash_sweep.py", 10000, 10000),
    props=["C15"], only_props=True,  # crash points are C15's quantifier only
    doc="[bounded only] stage+transfer with state, index save into two caches, store-to-store transfer, upload staging: every "
        "os-level mutation is a crash point; audit, re-run, audit",
)

contract(
    "dvc_data.index.save:save",
    params={},
    assumed=True, verify=False,
    bounded=("bounded/index_save.py", 150, 3000),
    props=["C01", "C13"],
    doc="[bounded only] index pipeline md5() -> save() over histories of workspace edits (re-validation of an index that carries recorded "
        "hashes, or build+update+md5): after every save each object of each store is named by the md5 of its bytes, local objects are "
        "read-only, and a re-validated entry carries the hash of the file's current bytes",
)
