"""C03 / C01: the identifier of a directory object — dvc_data/hashfile/tree.py:Tree.digest"""
import z3

import contracts.state  # noqa: F401
from contracts.build import cur
from pyvc import specfn
from pyvc.contracts import REG, contract
from pyvc.interp import extern
from pyvc.types import SV, And, Implies, Ite, Not, Or, TBool, TBytes, TOpt, TRef, TSeq, TStr, lift
from specs.heap import FileSystem, Tree, TreeEntry3
from specs.records import HashInfo

# Tree objects also carry fs / path (set by digest / load)
Tree.fields.update(fs=TOpt(FileSystem), path=TOpt(TStr))
OStr = TOpt(TStr)


def listing_bytes(entries, with_meta):
    """json.dumps(as_list(with_meta), sort_keys=True).encode(): the serialised listing (spec function of the entries)"""
    f = specfn.ufn("listing_bytes", TSeq(TreeEntry3).sort(), z3.BoolSort(), TBytes.sort())
    return SV(f(entries.t, lift(with_meta, TBool).t), TBytes)


def HB(name, data):
    """digest of a byte string under the algorithm `name` stands for (C14)"""
    f = specfn.ufn("HB", z3.StringSort(), TBytes.sort(), z3.StringSort())
    return SV(f(name.t, data.t), TStr)


contract(
    "dvc_data.hashfile.tree:Tree.as_bytes",
    params=dict(self=Tree, with_meta=TBool),
    returns=TBytes,
    ensures=lambda c: c.result == listing_bytes(c.h.get("Tree.entries", c.self), c.with_meta),
    assumed=True, verify=False,
    doc="[not verified: sorted() + json] the serialised listing, with or without per-entry metadata",
)


@extern("ext:dvc_objects.fs.MemoryFileSystem")
def _memfs(engine, args, kwargs, node, self_expr):
    r = engine.allocate(FileSystem)
    engine.heap_set(r, "is_local", False)
    engine.heap_set(r, "protocol", "memory")
    return r


@extern("ext:dvc_objects.fs.utils.tmp_fname")
def _tmp_fname(engine, args, kwargs, node, self_expr):
    return TStr.fresh("tmp_fname")


contract(
    "ext:FileSystem.pipe_file",
    params=dict(self=FileSystem, path=TStr, value=TBytes),
    ensures=lambda c: SV(z3.ForAll([z3.String("n!pf")], cur(c.self, SV(z3.String("n!pf"), TStr), c.path).t == HB(SV(z3.String("n!pf"), TStr), c.value).t), TBool),
    assumed=True,
    doc="memfs.pipe_file(path, data): the file at path holds exactly `data` (so its digest under any algorithm is that of `data`); "
        "paths written by digest() are fresh temporary names, written once",
)


def _digest_post(c):
    t = c.self
    hi = c.h.get("Tree.hash_info", t)
    want = HB(c.name, listing_bytes(c.h0.get("Tree.entries", t), False)) + ".dir"
    return And(
        hi.is_some,
        # the identifier hashes the listing WITHOUT metadata, whatever with_meta says, and carries the '.dir' suffix
        hi.val.value == OStr.some(want),
        hi.val.name == OStr.some(c.name),
        c.h.get("Tree.oid", t) == OStr.some(want),
        c.h.get("Tree.entries", t) == c.h0.get("Tree.entries", t),
    )


contract(
    "dvc_data.hashfile.tree:Tree.digest",
    params=dict(self=Tree, with_meta=TBool, name=TStr),
    requires=lambda c: __import__("contracts.state", fromlist=["alg_name"]).alg_name(c.name),  # `name` is an algorithm name
    raises={"NotImplementedError": (None, None), "FileNotFoundError": (None, None)},
    modifies=lambda c: [("Tree.hash_info", c.self), ("Tree.oid", c.self), ("Tree.fs", c.self), ("Tree.path", c.self), ("HashesCache.table", None)],
    ensures=_digest_post,
    props=["C03", "C01"],
    doc="tree digest = hash of the listing without metadata + '.dir' (does not depend on file metadata)",
)

contract(
    "dvc_data.hashfile.tree:Tree.get_obj",
    params={},
    assumed=True, verify=False,
    bounded=("bounded/tree_listing.py", 300, 5000),
    props=["C03", "C20"],
    doc="[bounded only] listing clauses outside the verifier's reach (pygtrie, json, sorted): order/metadata independence of the "
        "identifier, injectivity on neighbouring sets, from_list/as_list/load round trips, sub-tree extraction for every prefix",
)
