"""C05: the tree-level driver of object checkout — dvc_data/hashfile/checkout.py:_checkout

The statement ("never removes or overwrites a workspace file whose content is not stored in the cache")
is stated over the ghost removal log of the workspace file system: for every entry d of diff.deleted,

    (F1)  entry path of d was removed            ->  consent(d)
    (F2)  the checkout root itself was removed   ->  consent(d)  or  the prompt approved removing the root

with consent(d) = force, or the OLD object of d is in the cache, or the prompt approved that path, or there
was no such file.  (F2) is the clause a directory removal has to meet: removing the root destroys every file
below it, so each of them has to be recoverable, not only the .dir object (finding F-C05a).
"""
import z3

from pyvc import specfn
from pyvc.contracts import contract, REG
from pyvc.interp import extern, rec_from_source
from pyvc.omap import View
from pyvc.types import SV, And, ForAll, Implies, Ite, Not, Or, TBool, TInt, TKey, TList, TOpt, TRef, TSet, TStr, lift
from specs.heap import Callback, FileSystem, HashFileDB
from specs.records import REPO, Change, HashInfo
from specs.state import FileInfo
from pyvc.types import TOMap, TReal, TSeq, TTuple

import contracts.checkout_obj as co
from contracts.checkout_obj import Link, Prompt, files, msg, removed, under

from pyvc.calls import EXC_ATTRS  # noqa: E402

M = "dvc_data.hashfile.checkout"
EXC_ATTRS[("CheckoutError", "paths")] = TSeq(TStr)
Changes = TList(Change)
DiffResult = rec_from_source(REPO, "dvc_data.hashfile.diff:DiffResult",
                             overrides=dict(added=Changes, modified=Changes, deleted=Changes, unchanged=Changes))
ROOT = lift(("",), TKey)


# ---- paths -------------------------------------------------------------------------------------------
def J(base: SV, key: SV) -> SV:
    """fs.join(base, *key) (uninterpreted; what the proof needs about it is in the precondition `layout`)"""
    f = specfn.ufn("path_join", z3.StringSort(), TKey.sort(), z3.StringSort())
    return SV(f(base.t, key.t), TStr)


@extern("ext:FileSystem.join")
def _fs_join(engine, args, kwargs, node, self_expr):
    from pyvc.calls import StarSeq
    from pyvc.types import Unsupported

    if len(args) == 3 and isinstance(args[2], StarSeq) and args[2].sv.ty == TKey:
        return J(lift(args[1], TStr), args[2].sv)
    raise Unsupported("fs.join other than join(base, *key)")


@extern("ext:itertools.chain")
def _chain(engine, args, kwargs, node, self_expr):
    a, b = (engine.as_view(x) for x in args)
    return View(a.n + b.n, lambda i: Ite(i < a.n, a.elem(i), b.elem(i - a.n)), "chain")


def ep(c, d):
    """the workspace path of the OLD side of change d"""
    return Ite(d.old.key == ROOT, c.path, J(c.path, d.old.key))


def ep_new(c, d):
    return Ite(d.new.key == ROOT, c.path, J(c.path, d.new.key))


def approved(c, p):
    return And(c.prompt.is_some, c.prompt.val[msg(p)])


def consent(c, d):
    return Or(c.force, d.old.cache_meta.is_some, approved(c, ep(c, d)), Not(files(c.h0, c.fs).contains(ep(c, d))))


def all_deleted(c, f):
    k = TInt.fresh("k!del")
    D = c.diff.deleted
    return ForAll([k], Implies(And(k >= 0, k < D.length()), f(k, D[k])))


def F1(c, R):
    return all_deleted(c, lambda k, d: Implies(R.contains(ep(c, d)), consent(c, d)))


def F2(c, R):
    return Implies(R.contains(c.path), all_deleted(c, lambda k, d: Or(consent(c, d), approved(c, c.path))))


def layout(c):
    """entries of one diff are different files of one directory tree: their paths differ and none is below another"""
    D, A, Mo = c.diff.deleted, c.diff.added, c.diff.modified
    j, k = TInt.fresh("j!lay"), TInt.fresh("k!lay")
    inD = lambda i: And(i >= 0, i < D.length())  # noqa: E731
    return And(
        ForAll([j, k], Implies(And(inD(j), inD(k), j != k), ep(c, D[j]) != ep(c, D[k]))),
        ForAll([j, k], Implies(And(inD(j), inD(k), j != k, D[j].old.key != ROOT), Not(under(ep(c, D[j])).contains(ep(c, D[k]))))),
        ForAll([k], Implies(And(inD(k), D[k].old.key != ROOT), J(c.path, D[k].old.key) != c.path)),
        ForAll([j, k], Implies(And(j >= 0, j < A.length(), inD(k)), ep_new(c, A[j]) != ep(c, D[k]))),
        ForAll([j, k], Implies(And(j >= 0, j < Mo.length(), inD(k)), ep_new(c, Mo[j]) != ep(c, D[k]))),
    )


def new_ok(L):
    k = TInt.fresh("k!new")
    o = L[k].new.oid
    return ForAll([k], Implies(And(k >= 0, k < L.length()), And(o.is_some, o.val.value.is_some, o.val.value.val.length() > 0)))


def _pre(c):
    return And(
        removed(c.h, c.fs) == TSet(TStr).empty(),  # ghost log starts empty for this call
        co._types(c).length() >= 1,
        new_ok(c.diff.added), new_ok(c.diff.modified),
        layout(c),
    )


def _post(c):
    R = removed(c.h, c.fs)
    return And(F1(c, R), F2(c, R))


# ---- loop 0: the deleted entries ----------------------------------------------------------------------
def _inv0(c):
    R, i = removed(c.h, c.fs), c.idx
    fs_now, fs0 = files(c.h, c.fs), files(c.h0, c.fs)
    return And(
        all_deleted(c, lambda k, d: Implies(And(k < i, R.contains(ep(c, d))), consent(c, d))),
        all_deleted(c, lambda k, d: Implies(k >= i, Not(R.contains(ep(c, d))))),
        Implies(Not(R.contains(c.path)), And(
            all_deleted(c, lambda k, d: Implies(k < i, consent(c, d))),
            all_deleted(c, lambda k, d: Implies(k >= i, fs_now.contains(ep(c, d)) == fs0.contains(ep(c, d)))),
        )),
        F2(c, R),
    )


# ---- loop 1: added + modified ---------------------------------------------------------------------------
def _inv1(c):
    R = removed(c.h, c.fs)
    # the delete pass is over: every entry was either consented to or went with an approved removal of the root
    return And(F1(c, R), all_deleted(c, lambda k, d: Or(consent(c, d), approved(c, c.path))))


_same = lambda c: removed(c.h, c.fs) == removed(c.h0, c.fs)  # noqa: E731

contract("ext:dvc_objects.fs.generic.test_links",
         params=dict(links=TList(TStr), from_fs=FileSystem, from_path=TStr, to_fs=FileSystem, to_path=TStr), returns=TList(TStr),
         assumed=True, doc="test_links(): probes link types with temporary files of its own; net effect on other paths: none")
_mk = contract("ext:FileSystem.makedirs", params=dict(self=FileSystem, path=TStr, exist_ok=TBool),
         modifies=lambda c: [("FileSystem.files", c.self)], ensures=lambda c: files(c.h0, c.self).subset(files(c.h, c.self)),
         assumed=True, doc="fs.makedirs: creates, never removes")
_mk.defaults = dict(exist_ok=False)
from pyvc.types import TOMap  # noqa: E402

contract("dvc_data.hashfile.diff:DiffResult.stats", params=dict(self=DiffResult), returns=TOMap(TStr, TInt), assumed=True, verify=False,
         pure=True, doc="per-kind counts for the progress bar (attrs.asdict): not used by anything under contract")
contract(f"{M}:_save_link", params=dict(path=TStr, fs=FileSystem, diff=DiffResult, updated_mtimes=None, state=None),
         assumed=True, verify=False, doc="records the link in the state database: stat + sqlite only (C10 covers its token)")

contract(
    f"{M}:_checkout",
    params=dict(diff=DiffResult, path=TStr, fs=FileSystem, cache=HashFileDB, force=TBool, progress_callback=Callback,
                relink=TBool, state=None, prompt=Prompt),
    requires=_pre,
    raises={"PromptError": (None, _post), "LinkError": (None, _post), "CheckoutError": (None, _post), "FileNotFoundError": (None, _post)},
    modifies=lambda c: [("FileSystem.files", c.fs), ("FileSystem.removed", c.fs), ("G.lfiles",), ("G.l444",)],
    invariants={0: _inv0, 1: _inv1},
    locals=dict(failed=TSeq(TStr), hashes_to_update=TList(TTuple([TStr, TOpt(HashInfo), FileInfo])), updated_mtimes=TOMap(TStr, TReal)),
    ensures=_post,
    props=["C05", "C10", "C02"],
    doc="every removal of the delete pass is guarded with the cache status of what it destroys: an entry by its own OLD "
        "object, the root by ALL entries below it (state=None; entries of one diff are un-nested distinct paths)",
)


# ---- the public entry point: bounded stand-in only (its body adds build()/diff() on top of _checkout) ----
contract(
    f"{M}:checkout",
    params={},
    assumed=True, verify=False,
    bounded=("bounded/checkout_ws.py", 400, 6000),
    props=["C05", "C07"],
    doc="[bounded only] whole checkout(): workspace snapshot before/after, every lost byte string must be recoverable from the cache",
)


def _checkout_native(repo, con, fdef, ob, model):
    """replay driver for failed _checkout obligations: the workspace-history suite run natively on the same tree"""
    import json
    import os
    import subprocess

    here = os.path.dirname(os.path.dirname(os.path.abspath(__file__)))
    out = {"kind": "native scenario suite (bounded/checkout_ws.py): workspace snapshot oracle on real checkouts", "reproduced": False}
    try:
        p = subprocess.run(["/venv/bin/python", os.path.join(here, "bounded", "checkout_ws.py"), "1500"], capture_output=True, text=True,
                           env=dict(os.environ, PYVC_REPO_SRC=repo.src), timeout=300)
        rep = json.loads(p.stdout.strip().splitlines()[-1])
        out.update(scenarios_run=rep["evaluations"], failing=rep["failures"][:2], reproduced=bool(rep["n_failures"]))
    except Exception as e:  # noqa: BLE001
        out["detail"] = "scenario suite could not run: " + repr(e)
    return out


REG.get(f"{M}:_checkout").replay = _checkout_native


# =====================================================================================================
# C10: "the link record it saves matches the resulting workspace" -- hashfile/utils.py:_get_mtime_from_changes
# =====================================================================================================
from pyvc.specfn import str_join  # noqa: E402
from contracts.state import now_info  # noqa: E402
from specs.heap import FileSystem as _FS  # noqa: E402

MT = TOMap(TStr, TReal)
U = "dvc_data.hashfile.utils"
EXC_ATTRS[("FileNotFoundError", "errno")] = TInt


def mt_now(c, p):
    """the mtime the file at p has now (stat through the local filesystem; nothing under contract here writes files)"""
    return now_info(c.fs, p).mtime


def entry_path(c, key):
    """sep.join((path, *key)) -- the very term the code builds"""
    sep = c.h0.get("FileSystem.sep", c.fs)
    return str_join(c.engine, sep, TKey.unit(c.path) + key if hasattr(TKey, "unit") else SV(z3.Concat(z3.Unit(c.path.t), key.t), TKey))


def wf_core(c, m):
    """the provable part of a dict's well-formedness: listed keys are pairwise distinct and members of the ghost domain
    (the witness-function clause of omap_wf is an axiom about list membership, not something a loop can re-establish)"""
    ks = m.ty.keys(m)
    i, j = z3.Int("i!wfc"), z3.Int("j!wfc")
    return SV(z3.And(z3.ForAll([i, j], z3.Implies(z3.And(0 <= i, i < j, j < ks.length().t), ks[SV(i, TInt)].t != ks[SV(j, TInt)].t)),
                     z3.ForAll([i], z3.Implies(z3.And(0 <= i, i < ks.length().t), specfn.list_elems(ks).contains(ks[SV(i, TInt)]).t))), TBool)


def current(c, m):
    """every mtime recorded in m is the mtime its file has now"""
    p = SV(z3.String("p!cur"), TStr)
    return SV(z3.ForAll([p.t], z3.Implies(c.engine.omap_dom(m).contains(p).t, MT.at(m, p).t == mt_now(c, p).val.t)), TBool)


def _gm_pre(c):
    k = TInt.fresh("k!un")
    Un = c.diff.unchanged
    u = Un[k].old
    ep_ = entry_path(c, u.key)
    return And(
        c.h.get("FileSystem.is_local", c.fs),
        c.engine.omap_wf(c.updated_mtimes),
        # mtimes noted right after each file was (re)created by this checkout are current ...
        current(c, c.updated_mtimes),
        # ... and a file this checkout did not touch still has the mtime it was staged with
        ForAll([k], Implies(And(k >= 0, k < Un.length(), u.key != ROOT, u.meta.is_some, u.meta.val.mtime.is_some,
                                Not(c.engine.omap_dom(c.updated_mtimes).contains(ep_))),
                            u.meta.val.mtime.val == mt_now(c, ep_).val)),
    )


contract(
    f"{U}:_tokenize_mtimes",
    params=dict(files_mtimes=MT),
    returns=TStr,
    requires=lambda c: SV(z3.BoolVal(True), TBool),
    assumed=True, verify=False, pure=True,
    doc="md5 of the sorted json of the map (hashlib/json: external); its use by _get_mtime_from_changes is pinned by that function's hint",
)
contract(
    f"{U}:_get_mtime_from_changes",
    params=dict(path=TStr, fs=_FS, diff=DiffResult, updated_mtimes=MT),
    returns=TStr,
    requires=_gm_pre,
    raises={"FileNotFoundError": (None, None)},
    invariants={0: lambda c: And(wf_core(c, c.loc.mtimes), current(c, c.loc.mtimes),
                                 c.engine.omap_dom(c.updated_mtimes).subset(c.engine.omap_dom(c.loc.mtimes)))},
    locals=dict(mtimes=MT),
    pure=False,
    modifies=lambda c: [],
    # the token handed to the link record is taken of a map in which every recorded mtime is the file's current one
    hints={"_tokenize_mtimes": lambda c: current(c, c.loc.mtimes) if "mtimes" in c.loc else lift(True)},
    props=["C10"],
    doc="directory token from applied changes: every mtime that enters the token is the current mtime of its file "
        "(entries re-created by this checkout take the fresh value, untouched ones the staged value)",
)

contract(
    f"{M}:checkout.converge",
    params={},
    assumed=True, verify=False,
    bounded=("bounded/checkout_converge.py", 288, 4000),
    props=["C10"],
    doc="[bounded only] whole checkout(): forced checkout converges to the target, is idempotent, honours the configured link type, "
        "leaves cache bytes alone, and saves a link record that matches the workspace",
)
