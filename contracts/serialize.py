"""C20: dict round trips of Meta / HashInfo / DataIndexEntry — lemmas over the real to_dict/from_dict"""
from pyvc.contracts import harness
from pyvc.types import And, Implies, TBool, TOpt, lift
from specs.records import DataIndexEntry, HashInfo, Meta


def _eq(c, a, b):
    return lift(c.engine.eq(a, b), TBool)


# the serialised fields of Meta, fixed here from the statement's "fields that are serialised" as of the pinned tree (so that a
# field silently dropped from to_dict() is a loss, not a smaller projection): exact for flags and counts, modulo falsiness
# (None / "" are one value on disk) for the textual ones
META_EXACT = ("isdir", "size", "nfiles", "isexec")
META_TEXT = ("version_id", "etag", "checksum", "md5", "remote")


def meta_fields_same(c, a, b):
    T = lambda x: lift(c.engine.truth(x), TBool)  # noqa: E731
    return And(*[getattr(a, f) == getattr(b, f) for f in META_EXACT],
               *[And(Implies(T(getattr(a, f)), getattr(a, f) == getattr(b, f)), Implies(~T(getattr(a, f)), ~T(getattr(b, f)))) for f in META_TEXT])


def _meta_native(a, b):
    return all(getattr(a, f) == getattr(b, f) for f in META_EXACT) and all((getattr(a, f) or None) == (getattr(b, f) or None) for f in META_TEXT)


harness(
    "dvc_data.hashfile.meta", "meta_roundtrip",
    "def h(m):\n    d = m.to_dict()\n    m2 = Meta.from_dict(d)\n    return d, m2.to_dict(), m2\n",
    params=dict(m=Meta),
    ensures=lambda c: And(_eq(c, c.result[0], c.result[1]), meta_fields_same(c, c.m, c.result[2])),
    native_check=lambda a, r: r[0] == r[1] and _meta_native(a["m"], r[2]),
    props=["C20"],
    doc="Meta.from_dict(m.to_dict()) equals m on every serialised field (flags and counts exactly, texts modulo falsiness), and "
        "to_dict agrees, for every m (all optional-field combinations, zero sizes, false-y values)",
)

def meta_default(c, m):
    T = lambda x: lift(c.engine.truth(x), TBool)  # noqa: E731
    return And(~m.isdir, m.size.is_none, m.nfiles.is_none, ~m.isexec, *[~T(getattr(m, f)) for f in META_TEXT])


def _entry_meta_same(c, a, b):
    """metadata of an entry before (a) and after (b) the round trip, both optional: equal on the serialised fields, where an
    absent Meta and one with nothing to serialise are the same value on disk"""
    return And(Implies(a.is_some & b.is_some, meta_fields_same(c, a.val, b.val)),
               Implies(a.is_some & b.is_none, meta_default(c, a.val)),
               Implies(a.is_none & b.is_some, meta_default(c, b.val)))


def _entry_meta_native(a, b):
    from dvc_data.hashfile.meta import Meta as _M

    return _meta_native(a or _M(), b or _M())


harness(
    "dvc_data.hashfile.hash_info", "hashinfo_roundtrip",
    "def h(x):\n    d = x.to_dict()\n    y = HashInfo.from_dict(d)\n    return d, y, y.to_dict()\n",
    params=dict(x=HashInfo),
    ensures=lambda c: And(
        _eq(c, c.result[0], c.result[2]),
        # both truthy -> same (name, value); otherwise the empty HashInfo
        Implies(lift(c.engine.truth(c.x.name), TBool) & lift(c.engine.truth(c.x.value), TBool), c.result[1] == c.x),
    ),
    native_check=lambda a, r: r[0] == r[2] and (not (a["x"].name and a["x"].value) or r[1] == a["x"]),
    props=["C20"],
    doc="HashInfo.from_dict(h.to_dict()) == h on (name, value) when both are truthy; to_dict agrees in every case",
)

harness(
    "dvc_data.index.index", "entry_roundtrip",
    "def h(e):\n"
    "    d = e.to_dict()\n"
    "    e2 = DataIndexEntry.from_dict(d)\n"
    "    d2 = e2.to_dict()\n"
    "    p1 = (d.get('meta') or {}, d.get('hash_info') or {}, d['loaded'])\n"
    "    p2 = (d2.get('meta') or {}, d2.get('hash_info') or {}, d2['loaded'])\n"
    "    return p1, p2, e2\n",
    params=dict(e=DataIndexEntry),
    ensures=lambda c: And(_eq(c, c.result[0], c.result[1]), c.result[2].loaded == c.e.loaded, _entry_meta_same(c, c.e.meta, c.result[2].meta)),
    native_check=lambda a, r: r[0] == r[1] and r[2].loaded == a["e"].loaded and _entry_meta_native(a["e"].meta, r[2].meta),
    props=["C20"],
    doc="projection (meta dict or {}, hash dict or {}, loaded) of DataIndexEntry.from_dict(e.to_dict()) equals that of e "
        "(an all-default Meta and an absent one serialise alike: recorded reading of 'same serialisable metadata')",
)

from pyvc.contracts import contract  # noqa: E402

contract(
    "dvc_data.index.serialize:write_json",
    params={},
    assumed=True, verify=False,
    bounded=("bounded/index_persist.py", 100, 1500),
    props=["C20", "C17"],
    doc="[bounded only] the persistent forms (json, diskcache, sqltrie are outside the verifier's reach): JSON file, key-value "
        "database, SQLite-backed index with commit/close/reopen and a lazily loaded directory object",
)
