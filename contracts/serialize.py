"""C20: dict round trips of Meta / HashInfo / DataIndexEntry — lemmas over the real to_dict/from_dict"""
from pyvc.contracts import harness
from pyvc.types import And, Implies, TBool, TOpt, lift
from specs.records import DataIndexEntry, HashInfo, Meta


def _eq(c, a, b):
    return lift(c.engine.eq(a, b), TBool)


harness(
    "dvc_data.hashfile.meta", "meta_roundtrip",
    "def h(m):\n    d = m.to_dict()\n    m2 = Meta.from_dict(d)\n    return d, m2.to_dict()\n",
    params=dict(m=Meta),
    ensures=lambda c: _eq(c, c.result[0], c.result[1]),
    native_check=lambda a, r: r[0] == r[1],
    props=["C20"],
    doc="Meta.from_dict(m.to_dict()).to_dict() == m.to_dict() for every m (all optional-field combinations, zero sizes, false-y values)",
)

harness(
    "dvc_data.hashfile.hash_info", "hashinfo_roundtrip",
    "def h(x):\n    d = x.to_dict()\n    y = HashInfo.from_dict(d)\n    return d, y, y.to_dict()\n",
    params=dict(x=HashInfo),
    ensures=lambda c: And(
        _eq(c, c.result[0], c.result[2]),
        # both truthy -> same (name, value); otherwise the empty HashInfo
        Implies(lift(c.engine.truth(c.x.name), TBool) & lift(c.engine.truth(c.x.value), TBool), c.result[1] == c.x),
    ),
    native_check=lambda a, r: r[0] == r[2] and (not (a["x"].name and a["x"].value) or r[1] == a["x"]),
    props=["C20"],
    doc="HashInfo.from_dict(h.to_dict()) == h on (name, value) when both are truthy; to_dict agrees in every case",
)

harness(
    "dvc_data.index.index", "entry_roundtrip",
    "def h(e):\n"
    "    d = e.to_dict()\n"
    "    e2 = DataIndexEntry.from_dict(d)\n"
    "    d2 = e2.to_dict()\n"
    "    p1 = (d.get('meta') or {}, d.get('hash_info') or {}, d['loaded'])\n"
    "    p2 = (d2.get('meta') or {}, d2.get('hash_info') or {}, d2['loaded'])\n"
    "    return p1, p2, e2\n",
    params=dict(e=DataIndexEntry),
    ensures=lambda c: And(_eq(c, c.result[0], c.result[1]), c.result[2].loaded == c.e.loaded),
    native_check=lambda a, r: r[0] == r[1] and r[2].loaded == a["e"].loaded,
    props=["C20"],
    doc="projection (meta dict or {}, hash dict or {}, loaded) of DataIndexEntry.from_dict(e.to_dict()) equals that of e "
        "(an all-default Meta and an absent one serialise alike: recorded reading of 'same serialisable metadata')",
)
