"""C08 (a): per-entry classification — dvc_data/index/diff.py"""
from pyvc.contracts import contract
from pyvc.types import And, Implies, Ite, Not, Or, TBool, TOpt, TStr, lift
from specs.records import DataIndexEntry, HashInfo, Meta, MetaKeyFn

ADD, MODIFY, DELETE, UNCHANGED, UNKNOWN = "add", "modify", "delete", "unchanged", "unknown"
M = "dvc_data.index.diff"


def truthy_hi(h):  # Optional[HashInfo] truthiness: not None and bool(value)
    return h.is_some & h.val.value.is_some & (h.val.value.val.length() > 0)


def hi_same(a, b):
    """hashes agree: both falsy, or both truthy and equal"""
    return (Not(truthy_hi(a)) & Not(truthy_hi(b))) | (truthy_hi(a) & truthy_hi(b) & (a == b))


def hi_spec(a, b):
    return Ite(Not(truthy_hi(a)) & truthy_hi(b), lift(ADD),
               Ite(truthy_hi(a) & Not(truthy_hi(b)), lift(DELETE),
                   Ite(truthy_hi(a) & truthy_hi(b) & (a != b), lift(MODIFY), lift(UNCHANGED))))


def meta_same(a, b, cmp_key):
    # metadata present on one side only is a difference whatever the comparison key says
    plain = a == b
    keyed = cmp_key.val[a] == cmp_key.val[b]
    return Ite(a.is_none != b.is_none, lift(False), Ite(cmp_key.is_none, plain, keyed))


def meta_spec(a, b, cmp_key):
    return Ite(a.is_none & b.is_some, lift(ADD),
               Ite(a.is_some & b.is_none, lift(DELETE),
                   Ite(meta_same(a, b, cmp_key), lift(UNCHANGED), lift(MODIFY))))


contract(
    f"{M}:_diff_meta",
    params=dict(old=TOpt(Meta), new=TOpt(Meta), cmp_key=TOpt(MetaKeyFn)),
    returns=TStr,
    ensures=lambda c: c.result == meta_spec(c.old, c.new, c.cmp_key),
    lemmas={
        # C13: the metadata-based update() carries a hash over only on UNCHANGED under the *full* Meta equality;
        # that equality must cover the validity triple (inode, mtime, size)
        "unchanged_covers_token": lambda c: Implies(
            And(c.cmp_key.is_none, c.old.is_some, c.new.is_some, c.result == UNCHANGED),
            And(c.old.val.inode == c.new.val.inode, c.old.val.mtime == c.new.val.mtime, c.old.val.size == c.new.val.size)),
    },
    modular=True,
    pure=True,
    props=["C08", "C13", "C09"],
)

contract(
    f"{M}:_diff_hash_info",
    params=dict(old=TOpt(HashInfo), new=TOpt(HashInfo)),
    returns=TStr,
    ensures=lambda c: c.result == hi_spec(c.old, c.new),
    modular=True,
    pure=True,
    props=["C08", "C09"],
)


def T(b):  # Optional[bool] truthiness
    return b.is_some & b.val


def _entry_post(c):
    o, n, r = c.old, c.new, c.result
    o_hi = Ite(o.is_some, o.val.hash_info, TOpt(HashInfo).none())
    n_hi = Ite(n.is_some, n.val.hash_info, TOpt(HashInfo).none())
    o_m = Ite(o.is_some, o.val.meta, TOpt(Meta).none())
    n_m = Ite(n.is_some, n.val.meta, TOpt(Meta).none())
    both = o.is_some & n.is_some
    msame = meta_same(o_m, n_m, c.meta_cmp_key)
    hsame = hi_same(o_hi, n_hi)
    default = And(
        Implies(o.is_none & n.is_some, r == ADD),
        Implies(o.is_some & n.is_none, r == DELETE),
        Implies(o.is_none & n.is_none, r == UNCHANGED),
        # both present: unchanged exactly when hash and metadata agree
        Implies(both, (r == UNCHANGED) == (msame & hsame)),
        Implies(both, Or(r == UNCHANGED, r == MODIFY, r == ADD, r == DELETE)),
        # both present, both components populated on both sides and different => modified
        Implies(both & o_m.is_some & n_m.is_some & truthy_hi(o_hi) & truthy_hi(n_hi) & Not(msame & hsame), r == MODIFY),
    )
    # the full table.  The statement fixes the rows above; for an entry present on BOTH sides it only says "as a comparison of
    # hash and metadata dictates", and the remaining rows are pinned to what the code does (strongest postcondition: a row left
    # free is a row that can change unnoticed): entries without metadata on either side are classified by their hashes,
    # entries without a hash on either side by their metadata, every other difference is a modification
    table = Ite(o.is_none & n.is_some, lift(ADD), Ite(o.is_some & n.is_none, lift(DELETE), Ite(o.is_none & n.is_none, lift(UNCHANGED),
            Ite(o_m.is_none & n_m.is_none, hi_spec(o_hi, n_hi),
                Ite(Not(truthy_hi(o_hi)) & Not(truthy_hi(n_hi)), meta_spec(o_m, n_m, c.meta_cmp_key),
                    Ite(msame & hsame, lift(UNCHANGED), lift(MODIFY)))))))
    default = And(default, r == table)
    return Ite(T(c.unknown), r == UNKNOWN,
               Ite(T(c.meta_only), r == meta_spec(o_m, n_m, c.meta_cmp_key),
                   Ite(T(c.hash_only), r == hi_spec(o_hi, n_hi), default)))


contract(
    f"{M}:_diff_entry",
    params=dict(old=TOpt(DataIndexEntry), new=TOpt(DataIndexEntry), hash_only=TOpt(TBool), meta_only=TOpt(TBool),
                meta_cmp_key=TOpt(MetaKeyFn), unknown=TOpt(TBool)),
    returns=TStr,
    ensures=_entry_post,
    modular=False,
    pure=True,
    props=["C08", "C09"],
    doc="classified exactly as a key-by-key comparison of hash and metadata dictates; restricting to hashes or metadata never hides a change",
)

# traversal (each key once) and rename pairing: generator-heavy code over tries -- bounded stand-in only
contract(
    f"{M}:diff",
    verify=False,
    bounded=("bounded/index_diff.py", 400, 6000),
    props=["C08"],
    doc="the multiset of reported changes equals a flat key-by-key application of _diff_entry; renames pair one DELETE with one ADD "
        "of equal truthy hash, nothing lost or duplicated, no matching pair left unpaired (bounded run-time check)",
)

contract(
    "dvc_data.index.update:update",
    params={},
    assumed=True, verify=False,
    bounded=("bounded/index_update.py", 300, 5000),
    props=["C13"],
    doc="[bounded only] update(new, old) + md5(): a hash carried over by the metadata-based update equals the hash of the current bytes "
        "(the per-entry rule 'unchanged => token unchanged' is the proved lemma unchanged_covers_token on _diff_meta)",
)
