"""C17 / C02 / C09: materialising a directory object into the index — dvc_data/index/index.py:_load_from_object_storage"""
import z3

import contracts.transfer  # noqa: F401  (Tree contracts)
from pyvc.contracts import contract
from pyvc.types import SV, And, ForAll, Implies, Ite, Not, Or, TBool, TInt, TKey, TList, TMap, TOpt, TRef, TSet, TStr, TTuple, lift, seq_slice
from specs.heap import HashFileDB, Tree, TreeEntry3
from specs.records import DataIndexEntry, HashInfo, Meta

Trie = TRef("Trie", fields=dict(map=TMap(TKey, DataIndexEntry)))
ObjectStorage = TRef("ObjectStorage", fields=dict(odb=HashFileDB, key=TKey), qualname="dvc_data.index.index:ObjectStorage")
Item = TTuple([TKey, TTuple([TOpt(Meta), HashInfo])])

contract(
    "ext:Trie.__setitem__", params=dict(self=Trie, key=TKey, value=DataIndexEntry),
    modifies=lambda c: [("Trie.map", c.self)],
    ensures=lambda c: And(c.h.get("Trie.map", c.self).contains(c.key), c.h.get("Trie.map", c.self)[c.key] == c.value, _rest_same(c)),
    assumed=True, doc="trie[key] = value: finite map update (pygtrie / sqltrie)",
)


def _rest_same(c):
    k = SV(z3.Const("k!tr", TKey.sort()), TKey)
    m0, m1 = c.h0.get("Trie.map", c.self), c.h.get("Trie.map", c.self)
    return SV(z3.ForAll([k.t], z3.Implies(k.t != c.key.t, z3.And(m1.contains(k).t == m0.contains(k).t, m1[k].t == m0[k].t))), TBool)


contract(
    "dvc_data.hashfile.tree:Tree.iteritems",
    params=dict(self=Tree),
    returns=TList(Item),
    ensures=lambda c: And(
        c.result.length() == c.h.get("Tree.entries", c.self).length(),
        _all_i(c.result.length(), lambda i: And(
            c.result[i][0] == c.h.get("Tree.entries", c.self)[i][0],
            c.result[i][1][0] == c.h.get("Tree.entries", c.self)[i][1],
            c.result[i][1][1] == c.h.get("Tree.entries", c.self)[i][2],
            c.result[i][0].length() >= 1)),
    ),
    assumed=True,
    doc="iteritems() of a tree loaded from a store: (key, (meta, hash_info)) per listed entry (ghost view `entries`); keys are non-empty; "
        "the nested lazy loading branch (meta.obj) is not taken for store-loaded trees",
)


def _all_i(n, f):
    i = TInt.fresh("i!l")
    return ForAll([i], Implies(And(i >= 0, i < n), f(i)))


def _entries(c):
    return c.loc.obj and c.h.get("Tree.entries", c.loc.obj)


def dir_entry(key):
    return DataIndexEntry.mk(key=TOpt(TKey).some(key), meta=TOpt(Meta).some(Meta.mk(isdir=True)), hash_info=None, loaded=TOpt(TBool).some(lift(True)))


def _inv_outer(c):
    its = c.view.n  # number of items
    i, j = TInt.fresh("i!o"), TInt.fresh("j!o")
    el = lambda k: c.view.elem(k)[0]  # noqa: E731  ikey of the k-th item
    return And(
        # every proper non-empty prefix of every key seen so far is in dirs
        ForAll([i, j], Implies(And(i >= 0, i < c.idx, j >= 1, j < el(i).length()), c.loc.dirs.contains(seq_slice(el(i), 0, j)))),
    )


def _inv_inner(c):
    ikey = c.loc.ikey
    t = TInt.fresh("t!n")
    outer = c.outer[-1]
    i, j = TInt.fresh("i!o2"), TInt.fresh("j!o2")
    el = lambda k: (outer.get("view") or outer["pview"]).elem(k)[0]  # noqa: E731
    return And(
        ForAll([i, j], Implies(And(i >= 0, i < outer["idx"], j >= 1, j < el(i).length()), c.loc.dirs.contains(seq_slice(el(i), 0, j)))),
        # prefixes ikey[:-t] for the t already visited (t = 1 .. idx)
        ForAll([t], Implies(And(t >= 1, t <= c.idx), c.loc.dirs.contains(seq_slice(ikey, None, ("from_end", t))))),
        ikey == el(outer["idx"]),
    )


def _inv_dirs(c):
    V = c.visited
    d = SV(z3.Const("d!v", TKey.sort()), TKey)
    m = c.h.get("Trie.map", c.trie)
    rk = c.root_entry.key.val
    return ForAll([d], Implies(V.contains(d), And(m.contains(rk + d), m[rk + d] == dir_entry(rk + d))))


def _post(c):
    m = c.h.get("Trie.map", c.trie)
    rk = c.root_entry.key.val
    E = tree_entries_of(c)
    i, j = TInt.fresh("i!p"), TInt.fresh("j!p")
    return And(
        # the implicit sub-directories: exactly the proper non-empty prefixes of the listed keys get a loaded directory entry
        ForAll([i, j], Implies(And(i >= 0, i < E.length(), j >= 1, j < E[i][0].length()),
                               And(m.contains(rk + seq_slice(E[i][0], 0, j)), m[rk + seq_slice(E[i][0], 0, j)] == dir_entry(rk + seq_slice(E[i][0], 0, j))))),
    )


def tree_entries_of(c):
    """listing of THE directory object root_entry points at (what Tree.load returns)"""
    from pyvc.specfn import ufn
    from pyvc.types import TSeq

    f = ufn("tree_listing", HashInfo.sort(), TSeq(TreeEntry3).sort())
    return SV(f(c.root_entry.hash_info.val.t), TSeq(TreeEntry3))


# Tree.load additionally yields THE listing
from pyvc.contracts import REG  # noqa: E402

_tl = REG.get("dvc_data.hashfile.tree:Tree.load")
_tl_ens = _tl.ensures


def _tl_listing(c):
    from pyvc.specfn import ufn
    from pyvc.types import TSeq

    f = ufn("tree_listing", HashInfo.sort(), TSeq(TreeEntry3).sort())
    return c.h.get("Tree.entries", c.result) == SV(f(c.hash_info.t), TSeq(TreeEntry3))


_tl.ensures = lambda c: And(_tl_ens(c), _tl_listing(c))

contract(
    "dvc_data.index.index:_load_from_object_storage",
    params=dict(trie=Trie, root_entry=DataIndexEntry, storage=ObjectStorage),
    requires=lambda c: c.root_entry.key.is_some,
    raises={"FileNotFoundError": (None, None)},
    modifies=lambda c: [("Trie.map", c.trie)],
    locals=dict(dirs=TSet(TKey)),
    invariants={0: _inv_outer, 1: _inv_inner, 2: _inv_dirs},
    ensures=_post,
    verify=False,  # the sequence-slice invariants are beyond z3/cvc5 here (undecided): see DESIGN; a bounded stand-in runs instead
    bounded=("bounded/index_load.py", 150, 1500),
    props=["C17", "C02", "C09"],
    doc="children and the implicit intermediate directories of a directory object are materialised: every proper non-empty "
        "prefix of every listed key gets a loaded directory entry",
)
